package cw

import (
	"bytes"
	"compress/flate"
	"compress/gzip"
	"crypto/sha256"
	"encoding/json"
	"fmt"
	"io"
	"os"
	"path/filepath"
	"sort"
	"strings"
	"time"

	"github.com/gopherjs/gopherjs/build/cache"
	"github.com/gopherjs/gopherjs/compiler/sources"
)

// Cfg is a BuildCache configuration in JSON form.
type Cfg struct {
	GOOS, GOARCH, GOROOT, GOPATH string
	Tags                         []string
	TagsNil                      bool
	Version                      string
	Tested                       string
}

func (c Cfg) BC() *cache.BuildCache {
	bc := &cache.BuildCache{GOOS: c.GOOS, GOARCH: c.GOARCH, GOROOT: c.GOROOT, GOPATH: c.GOPATH, Version: c.Version, TestedPackage: c.Tested}
	if !c.TagsNil {
		bc.BuildTags = append([]string{}, c.Tags...)
	}
	return bc
}

// DefaultCfg resembles what NewSession would configure.
func DefaultCfg() Cfg {
	return Cfg{GOOS: "js", GOARCH: "ecmascript", GOROOT: "/usr/lib/go-1.23", GOPATH: "/root/go",
		Tags: []string{"netgo", "purego", "math_big_pure_go"}, Version: "1.19.0-beta2+go1.20.14"}
}

// Entries lists the files below the cache root: entries (sha256 hex names) and everything else
// (temporary files of interrupted stores).
func Entries(root string) (entries, temps []string) {
	filepath.Walk(root, func(p string, info os.FileInfo, err error) error {
		if err != nil || info.IsDir() {
			return nil
		}
		if isHex64(filepath.Base(p)) {
			entries = append(entries, p)
		} else {
			temps = append(temps, p)
		}
		return nil
	})
	sort.Strings(entries)
	sort.Strings(temps)
	return
}

func isHex64(s string) bool {
	if len(s) != 64 {
		return false
	}
	for _, c := range s {
		if !(c >= '0' && c <= '9' || c >= 'a' && c <= 'f') {
			return false
		}
	}
	return true
}

// StoreLocate stores and reports which entry path appeared or changed.
func StoreLocate(root string, bc *cache.BuildCache, p cache.Cacheable, importPath string, bt time.Time) (path string, ok bool) {
	before := map[string][32]byte{}
	es, _ := Entries(root)
	for _, e := range es {
		b, _ := os.ReadFile(e)
		before[e] = sha256.Sum256(b)
	}
	ok = bc.Store(p, importPath, bt)
	es, _ = Entries(root)
	for _, e := range es {
		b, _ := os.ReadFile(e)
		if h, seen := before[e]; !seen || h != sha256.Sum256(b) {
			path = e
		}
	}
	return
}

// SafeLoad calls Load and converts a panic into a report.
func SafeLoad(bc *cache.BuildCache, into cache.Cacheable, importPath string, srcMod time.Time) (hit bool, panicked string) {
	defer func() {
		if r := recover(); r != nil {
			hit, panicked = false, fmt.Sprint(r)
		}
	}()
	return bc.Load(into, importPath, srcMod), ""
}

// SafeStore likewise.
func SafeStore(bc *cache.BuildCache, p cache.Cacheable, importPath string, bt time.Time) (ok bool, panicked string) {
	defer func() {
		if r := recover(); r != nil {
			ok, panicked = false, fmt.Sprint(r)
		}
	}()
	return bc.Store(p, importPath, bt), ""
}

// StrictComplete is the independent definition of "a complete cache file": one gzip member
// that decompresses to EOF with a valid checksum and length.
func StrictComplete(b []byte) error {
	zr, err := gzip.NewReader(bytes.NewReader(b))
	if err != nil {
		return err
	}
	zr.Multistream(false)
	if _, err := io.Copy(io.Discard, zr); err != nil {
		return err
	}
	return zr.Close()
}

// PayloadSpec names a deterministic payload: "mock:<size>:<seed>" or "src:<dir>:<importPath>".
type PayloadSpec string

// Make builds a new instance of the payload (fresh objects every time: Store mutates ASTs).
func (ps PayloadSpec) Make() (cache.Cacheable, error) {
	f := strings.SplitN(string(ps), ":", 3)
	switch f[0] {
	case "mock":
		var size int
		var seed int64
		fmt.Sscan(f[1], &size)
		fmt.Sscan(f[2], &seed)
		return NewMock("mock/"+f[1]+"/"+f[2]+"/", size, seed), nil
	case "src":
		return ParseDir(f[1], f[2], false)
	}
	return nil, fmt.Errorf("bad payload spec %q", ps)
}

// Fresh returns an empty object to load into.
func (ps PayloadSpec) Fresh() cache.Cacheable {
	if strings.HasPrefix(string(ps), "mock:") {
		return &Mock{}
	}
	return &sources.Sources{}
}

// RefFP is the fingerprint of the payload after an undamaged Store/Load round trip under a
// side key of the same cache (what "exactly the stored content" means for the other oracles).
func RefFP(ps PayloadSpec, side string) (string, error) {
	p, err := ps.Make()
	if err != nil {
		return "", err
	}
	bc := Cfg{GOOS: "ref", Version: side}.BC()
	t := time.Unix(1700000000, 0)
	if !bc.Store(p, "c20ref/"+side, t) {
		return "", fmt.Errorf("reference store of %s failed", ps)
	}
	fr := ps.Fresh()
	if !bc.Load(fr, "c20ref/"+side, t) {
		return "", fmt.Errorf("reference load of %s failed", ps)
	}
	return Fingerprint(fr)
}

// gob/deflate boundaries --------------------------------------------------------------------

// Boundaries maps the end of every top-level gob message of the uncompressed stream to the
// smallest compressed prefix length that still yields it, and adds the gzip header/trailer
// boundaries.
func Boundaries(file []byte) []int {
	set := map[int]bool{0: true, 1: true, 2: true, 3: true, 4: true, 9: true, 10: true, 11: true,
		len(file) - 9: true, len(file) - 8: true, len(file) - 7: true, len(file) - 5: true, len(file) - 4: true, len(file) - 3: true, len(file) - 1: true}
	zr, err := gzip.NewReader(bytes.NewReader(file))
	if err == nil {
		plain, _ := io.ReadAll(zr)
		var ends []int
		off := 0
		for off < len(plain) && len(ends) < 4000 {
			n, w := gobUint(plain[off:])
			if w == 0 {
				break
			}
			off += w + int(n)
			if off > len(plain) {
				break
			}
			ends = append(ends, off)
		}
		// sample at most 64 message ends (first 16, last 16, evenly between)
		pick := ends
		if len(ends) > 64 {
			pick = append([]int{}, ends[:16]...)
			pick = append(pick, ends[len(ends)-16:]...)
			for i := 0; i < 32; i++ {
				pick = append(pick, ends[16+i*(len(ends)-32)/32])
			}
		}
		for _, u := range pick {
			l := minPrefixFor(file, u)
			for _, d := range []int{-1, 0, 1} {
				set[l+d] = true
			}
		}
	}
	var out []int
	for o := range set {
		if o >= 0 && o < len(file) {
			out = append(out, o)
		}
	}
	sort.Ints(out)
	return out
}

func gobUint(b []byte) (uint64, int) {
	if len(b) == 0 {
		return 0, 0
	}
	if b[0] < 128 {
		return uint64(b[0]), 1
	}
	n := -int(int8(b[0]))
	if n > 8 || len(b) < 1+n {
		return 0, 0
	}
	var v uint64
	for i := 0; i < n; i++ {
		v = v<<8 | uint64(b[1+i])
	}
	return v, 1 + n
}

// minPrefixFor returns the smallest L such that inflating file[10:L] yields at least want bytes.
func minPrefixFor(file []byte, want int) int {
	yield := func(l int) int {
		if l <= 10 {
			return 0
		}
		fr := flate.NewReader(bytes.NewReader(file[10:l]))
		n, _ := io.Copy(io.Discard, fr)
		return int(n)
	}
	lo, hi := 10, len(file)
	for lo < hi {
		mid := (lo + hi) / 2
		if yield(mid) >= want {
			hi = mid
		} else {
			lo = mid + 1
		}
	}
	return lo
}

// JSON helpers ------------------------------------------------------------------------------

func ReadJob(path string, into any) {
	b, err := os.ReadFile(path)
	if err == nil {
		err = json.Unmarshal(b, into)
	}
	if err != nil {
		fmt.Fprintln(os.Stderr, "c20 child: bad job file:", err)
		os.Exit(98)
	}
}

func WriteResult(path string, v any) {
	b, _ := json.Marshal(v)
	if path == "" || path == "-" {
		os.Stdout.Write(b)
		return
	}
	tmp := path + ".tmp"
	os.WriteFile(tmp, b, 0o644)
	os.Rename(tmp, path)
}

func osStat(p string) (int, error) {
	st, err := os.Stat(p)
	if err != nil {
		return 0, err
	}
	return int(st.Size()), nil
}
