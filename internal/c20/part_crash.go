package c20

import (
	"fmt"
	"os"
	"path/filepath"
	"sort"
	"strings"
	"sync"
	"time"

	"verif/internal/c20/cw"
	"verif/internal/core"
)

const crashTrace = "write,pwrite64,openat,mkdirat,renameat,renameat2,rename,unlinkat,unlink"

// crashGroup is one (payload, pre-state) combination whose Store is enumerated under faults.
type crashGroup struct {
	name     string
	pre      cw.PayloadSpec // "" = empty cache; else a complete older entry under the same key
	payload  cw.PayloadSpec
	again    cw.PayloadSpec
	template string         // cache home holding the pre-state
	counts   map[string]int // per syscall: max calls made by one thread in the fault-free run
	totals   map[string]int
	openAtK  int // index (within its thread) of the openat that creates the temporary file
	ok       bool
}

type crashState struct {
	mu                  sync.Mutex
	runs, effective     int
	killed, errInjected int
	byFault             map[string]int // effective injections by call/fault
	outcomes            map[string]int // what the fresh process found afterwards
	temps               int            // leftover temporary files seen
	planned             int
	onCache             int // effective injections that hit a call on a file of the cache directory
	effectiveNs         map[string][]int
	storeOKUnderFault   int
	storeFailed         int
	baselineSyscalls    map[string]map[string]int
}

var cs = &crashState{}

const importPathCrash = "crash/pkg"

func copyTree(from, to string) error {
	return filepath.Walk(from, func(p string, info os.FileInfo, err error) error {
		if err != nil {
			return err
		}
		rel, _ := filepath.Rel(from, p)
		dst := filepath.Join(to, rel)
		if info.IsDir() {
			return os.MkdirAll(dst, 0o755)
		}
		b, err := os.ReadFile(p)
		if err != nil {
			return err
		}
		return os.WriteFile(dst, b, 0o644)
	})
}

type straceRes struct {
	exit        int
	killed      bool
	injected    int
	onCache     bool                      // the faulted call operated on a file below the cache directory
	cacheOpenAt map[string]int            // tid → 1-based index of its openat call that created the temp file
	perTID      map[string]map[string]int // syscall → tid → calls
	stderr      string
	timedOut    bool
}

// straceStore runs one `vp c20-store` under strace with the given -e inject expressions.
func (k *check) straceStore(home, dir string, g *crashGroup, injects ...string) straceRes {
	job := cw.StoreJob{Scratch: k.c.Scratch, Payload: g.payload, ImportPath: importPathCrash}
	jf := filepath.Join(dir, "store.job.json")
	os.WriteFile(jf, []byte(mustJSON(job)), 0o644)
	trace := filepath.Join(dir, "trace.txt")
	args := []string{"-f", "-y", "-qq", "-o", trace, "-e", "trace=" + crashTrace}
	seccomp := len(injects) > 0
	for _, in := range injects {
		if strings.Contains(in, "signal=") {
			seccomp = false // strace 6.1 does not deliver signal-only injections in --seccomp-bpf mode
		}
	}
	if seccomp {
		args = append([]string{"--seccomp-bpf"}, args...)
	}
	for _, in := range injects {
		args = append(args, "-e", "inject="+in)
	}
	args = append(args, k.c.Self, "c20-store", jf)
	r := core.Exec(dir, k.env(home, "GOMAXPROCS=1", "GOGC=1000"), 2*time.Minute, "", "strace", args...)
	res := straceRes{exit: r.Exit, stderr: r.Stderr, timedOut: r.TimedOut, perTID: map[string]map[string]int{}, cacheOpenAt: map[string]int{}}
	b, _ := os.ReadFile(trace)
	lastCall := ""
	for _, line := range strings.Split(string(b), "\n") {
		f := strings.SplitN(strings.TrimLeft(line, " "), " ", 2)
		if len(f) < 2 {
			continue
		}
		f[1] = strings.TrimLeft(f[1], " ") // the pid column is padded when pids differ in width
		if strings.Contains(f[1], "killed by SIGKILL") {
			res.killed = true
			if strings.Contains(lastCall, "build_cache") {
				res.onCache = true
			}
		}
		if strings.HasSuffix(strings.TrimSpace(f[1]), "(INJECTED)") {
			res.injected++
			if strings.Contains(f[1], "build_cache") {
				res.onCache = true
			}
		}
		if !strings.HasPrefix(f[1], "---") && !strings.HasPrefix(f[1], "+++") {
			lastCall = f[1]
		}
		call := f[1]
		if i := strings.IndexByte(call, '('); i > 0 && !strings.HasPrefix(call, "---") && !strings.HasPrefix(call, "+++") && !strings.HasPrefix(call, "<...") {
			call = call[:i]
			if res.perTID[call] == nil {
				res.perTID[call] = map[string]int{}
			}
			res.perTID[call][f[0]]++
			if call == "openat" && strings.Contains(f[1], "build_cache") && strings.Contains(f[1], "O_CREAT") {
				res.cacheOpenAt[f[0]] = res.perTID[call][f[0]]
			}
		}
	}
	if r.Exit == -1 && !r.TimedOut {
		res.killed = true
	}
	return res
}

func (k *check) crashJobs() (jobs, post []func()) {
	c := k.c
	cs = &crashState{byFault: map[string]int{}, outcomes: map[string]int{}, effectiveNs: map[string][]int{}, baselineSyscalls: map[string]map[string]int{}}
	d := c.Dir("crash-src")
	write := func(name, pkg, extra string) cw.PayloadSpec {
		os.MkdirAll(filepath.Join(d, name), 0o755)
		os.WriteFile(filepath.Join(d, name, name+".go"), []byte(strings.Replace(tinySource, "package tiny", "package "+pkg, 1)+extra), 0o644)
		return cw.PayloadSpec("src:" + filepath.Join(d, name) + ":prog/" + name)
	}
	srcOld := write("old", "old", "\nfunc OnlyInOld() {}\n")
	srcNew := write("new", "fresh", "\n// NewThing is only in the new version.\nfunc NewThing(a, b int) int { return a<<2 | b }\n")
	srcAgain := write("again", "again", "\nvar Again = []string{\"x\"}\n")
	groups := []*crashGroup{
		{name: "mock/empty-cache", payload: "mock:600:5", again: "mock:700:7"},
		{name: "mock/over-older-entry", pre: "mock:500:9", payload: "mock:600:5", again: "mock:700:7"},
		{name: "sources/empty-cache", payload: srcNew, again: srcAgain},
		{name: "sources/over-older-entry", pre: srcOld, payload: srcNew, again: srcAgain},
	}
	if c.Quick() {
		groups = []*crashGroup{groups[0], groups[3]}
	}
	if !c.Quick() {
		pk := genCorpusStride(c.Rand("crash-pkg"), 1, 1)[0]
		for n, src := range pk.Files {
			os.MkdirAll(filepath.Join(d, "corpus"), 0o755)
			os.WriteFile(filepath.Join(d, "corpus", n), []byte(src), 0o644)
		}
		big := cw.PayloadSpec("src:" + filepath.Join(d, "corpus") + ":prog/corpus")
		groups = append(groups,
			&crashGroup{name: "corpus-package/over-older-entry", pre: srcOld, payload: big, again: srcAgain},
			&crashGroup{name: "mock-40k/over-older-entry", pre: "mock:500:9", payload: "mock:60000:11", again: "mock:700:7"})
	}
	// phase 1: pre-state and fault-free baseline of every group
	for _, g := range groups {
		g := g
		jobs = append(jobs, func() {
			g.template = c.Dir("crash-template")
			if g.pre != "" {
				job := cw.StoreJob{Scratch: c.Scratch, Payload: g.pre, ImportPath: importPathCrash}
				jf := filepath.Join(g.template, "pre.job.json")
				os.WriteFile(jf, []byte(mustJSON(job)), 0o644)
				r := core.Exec(g.template, k.env(g.template), time.Minute, "", c.Self, "c20-store", jf)
				os.Remove(jf)
				if r.Exit != 0 {
					c.Inconclusive("crash-prestate-store-failed")
					return
				}
			}
			run := c.Dir("crash-base")
			home := filepath.Join(run, "home")
			copyTree(g.template, home)
			res := k.straceStore(home, run, g)
			if res.exit != 0 || res.timedOut {
				c.Inconclusive("crash-baseline-failed")
				fmt.Println("C20 crash baseline failed for", g.name, "exit", res.exit, tail(res.stderr, 500))
				return
			}
			g.counts, g.totals = map[string]int{}, map[string]int{}
			for call, per := range res.perTID {
				for _, n := range per {
					g.totals[call] += n
					if n > g.counts[call] {
						g.counts[call] = n
					}
				}
			}
			for _, idx := range res.cacheOpenAt {
				g.openAtK = idx
			}
			vs, ok := k.verify(run, g, []string{home})
			v := cw.VerifyOut{}
			if ok && len(vs) == 1 {
				v = vs[0]
			}
			if !ok || !v.Hit || v.HitIndex != len(g.allowed())-1 || v.IncompleteEntry != "" {
				c.Inconclusive("crash-baseline-not-loadable")
				fmt.Printf("C20 crash baseline of %s does not load its own store: %+v\n", g.name, v)
				return
			}
			cs.mu.Lock()
			cs.baselineSyscalls[g.name] = g.totals
			cs.mu.Unlock()
			g.ok = true
		})
	}
	// phase 2: enumeration of crash points and fault sequences
	post = append(post, func() {
		type run struct {
			g       *crashGroup
			call    string
			fault   string // "kill" "ENOSPC" "EIO" "ENOSPC+" (persistent) "ENOSPC&unlink"
			n       int
			injects []string
		}
		var runs []run
		for _, g := range groups {
			if !g.ok {
				continue
			}
			for _, call := range []string{"write", "openat", "mkdirat", "renameat"} {
				// when=N counts per thread: N ranges up to the TOTAL number of calls (no thread can
				// make more) plus one, which must be a fault-free run
				lo, hi := 1, g.totals[call]+1
				if call == "openat" && g.openAtK > 0 && c.Quick() {
					// quick: only around the openat that creates the temporary file (the others are
					// the runtime's and the child's own start-up reads)
					lo, hi = g.openAtK-1, g.openAtK+1
					if lo < 1 {
						lo = 1
					}
				}
				for n := lo; n <= hi; n++ {
					runs = append(runs, run{g, call, "kill", n, []string{fmt.Sprintf("%s:signal=KILL:when=%d", call, n)}})
					runs = append(runs, run{g, call, "ENOSPC", n, []string{fmt.Sprintf("%s:error=ENOSPC:when=%d", call, n)}})
					if call == "write" || !c.Quick() {
						runs = append(runs, run{g, call, "EIO", n, []string{fmt.Sprintf("%s:error=EIO:when=%d", call, n)}})
					}
					if call == "write" {
						runs = append(runs, run{g, call, "ENOSPC+", n, []string{fmt.Sprintf("write:error=ENOSPC:when=%d+", n)}})
						runs = append(runs, run{g, call, "ENOSPC&unlink-EIO", n, []string{fmt.Sprintf("write:error=ENOSPC:when=%d", n), "unlinkat:error=EIO:when=1+"}})
						if !c.Quick() {
							runs = append(runs, run{g, call, "EIO&rename-EIO", n, []string{fmt.Sprintf("write:error=EIO:when=%d", n), "renameat:error=EIO:when=1+"}})
						}
					}
				}
			}
			runs = append(runs, run{g, "renameat", "EXDEV", 1, []string{"renameat:error=EXDEV:when=1"}})
			runs = append(runs, run{g, "openat", "EMFILE+", 1, []string{"openat:error=EMFILE:when=1+"}})
			runs = append(runs, run{g, "mkdirat", "EACCES+", 1, []string{"mkdirat:error=EACCES:when=1+"}})
		}
		cs.mu.Lock()
		cs.planned = len(runs)
		cs.mu.Unlock()
		// chunks: the stores run one process each under strace; ONE fresh process then examines
		// what every store of the chunk left behind
		const chunk = 12
		type chunkT struct {
			g    *crashGroup
			runs []run
		}
		var chunks []chunkT
		for _, g := range groups {
			var mine []run
			for _, r := range runs {
				if r.g == g {
					mine = append(mine, r)
				}
			}
			for i := 0; i < len(mine); i += chunk {
				j := i + chunk
				if j > len(mine) {
					j = len(mine)
				}
				chunks = append(chunks, chunkT{g, mine[i:j]})
			}
		}
		c.Parallel(len(chunks), func(ci int) {
			ch := chunks[ci]
			dir := c.Dir("crash-run")
			var homes []string
			var results []straceRes
			var done []run
			for i, r := range ch.runs {
				home := filepath.Join(dir, fmt.Sprint("home", i))
				if err := copyTree(r.g.template, home); err != nil {
					c.Inconclusive("crash-copy-failed")
					continue
				}
				res := k.straceStore(home, dir, r.g, r.injects...)
				if res.timedOut {
					c.Inconclusive("crash-store-timeout")
					continue
				}
				homes = append(homes, home)
				results = append(results, res)
				done = append(done, r)
			}
			vs, ok := k.verify(dir, ch.g, homes)
			if !ok || len(vs) != len(homes) {
				c.Inconclusive("crash-verify-child-failed")
				return
			}
			for i, r := range done {
				k.judgeCrash(r.g, r.call, r.fault, r.n, results[i], vs[i])
			}
			os.RemoveAll(dir)
		})
	})
	return
}

func (g *crashGroup) allowed() []cw.PayloadSpec {
	if g.pre != "" {
		return []cw.PayloadSpec{g.pre, g.payload}
	}
	return []cw.PayloadSpec{g.payload}
}

func (k *check) verify(dir string, g *crashGroup, homes []string) ([]cw.VerifyOut, bool) {
	job := cw.VerifyJob{Scratch: k.c.Scratch, ImportPath: importPathCrash, Allowed: g.allowed(), Again: g.again, Homes: homes, Out: filepath.Join(dir, "verify.json")}
	os.Remove(job.Out)
	var vs []cw.VerifyOut
	_, ok := k.child("c20-verify", filepath.Join(dir, "verify-home"), job, job.Out, &vs, 5*time.Minute)
	return vs, ok
}

func (k *check) judgeCrash(g *crashGroup, call, fault string, n int, res straceRes, v cw.VerifyOut) {
	k.eval(1)
	effective := res.killed || res.injected > 0
	id := fmt.Sprintf("%s/%s/%s/when=%d", g.name, call, fault, n)
	outcome := "miss"
	newIdx := len(g.allowed()) - 1
	switch {
	case v.Hit && v.HitIndex == newIdx:
		outcome = "new-entry"
	case v.Hit && v.HitIndex >= 0:
		outcome = "old-entry"
	case v.Hit:
		outcome = "FOREIGN"
	}
	cs.mu.Lock()
	cs.runs++
	if effective {
		cs.effective++
		cs.byFault[call+"/"+fault]++
		cs.effectiveNs[g.name+" "+call+"/"+fault] = append(cs.effectiveNs[g.name+" "+call+"/"+fault], n)
		k.distinct["crash/"+id] = true
	}
	if effective && res.onCache {
		cs.onCache++
	}
	if res.killed {
		cs.killed++
	} else if res.injected > 0 {
		cs.errInjected++
		if res.exit == 0 {
			cs.storeOKUnderFault++
		} else {
			cs.storeFailed++
		}
	}
	cs.outcomes[outcome]++
	cs.temps += v.Temps
	first := cs.effective == 7
	cs.mu.Unlock()
	if first {
		k.c.Sample(map[string]any{"crash_point": id, "killed": res.killed, "errors_injected": res.injected, "store_exit": res.exit, "fresh_process_found": outcome, "leftover_temp_files": v.Temps})
	}
	desc := fmt.Sprintf("Store of %s under strace inject %s/%s when=%d (killed=%v, %d error(s) injected, store exit %d); afterwards a fresh process found: %+v", g.payload, call, fault, n, res.killed, res.injected, res.exit, v)
	files := map[string]string{"case.json": mustJSON(map[string]any{"group": g.name, "pre": g.pre, "payload": g.payload, "call": call, "fault": fault, "when": n})}
	if res.exit == 4 {
		k.violate("crash/"+id+"/store-panicked", "Store panicked: "+tail(res.stderr, 800)+"\n"+desc, files)
	}
	if v.IncompleteEntry != "" {
		k.violate("crash/"+id+"/partial-file-at-key-path", "the key path holds a file that is not a complete entry: "+v.IncompleteEntry+"\n"+desc, files)
	}
	if v.Panic != "" {
		k.violate("crash/"+id+"/load-panicked", "Load panicked after the fault: "+v.Panic+"\n"+desc, files)
	}
	if outcome == "FOREIGN" {
		k.violate("crash/"+id+"/partial-or-different-content", "Load returned true with content that is none of the complete payloads\n"+desc, files)
	}
	if !v.AgainStored || !v.AgainExact {
		k.violate("crash/"+id+"/store-after-fault", fmt.Sprintf("after the fault a new Store/Load of the same key does not work (stored=%v exact=%v)\n%s", v.AgainStored, v.AgainExact, desc), files)
	}
	if res.exit == 0 && !res.killed && outcome != "new-entry" {
		k.violate("crash/"+id+"/store-true-but-not-loadable", "Store returned true but a fresh process does not load the new entry ("+outcome+")\n"+desc, files)
	}
}

func (k *check) finishCrash() {
	c := k.c
	c.Count("crash_runs", cs.runs)
	c.Count("crash_runs_planned", cs.planned)
	c.Count("crash_points_effective", cs.effective)
	c.Count("crash_points_effective_on_cache_files", cs.onCache)
	c.Count("crash_kills", cs.killed)
	c.Count("crash_error_sequences_injected", cs.errInjected)
	c.Count("crash_store_false_under_fault", cs.storeFailed)
	c.Count("crash_store_true_despite_fault", cs.storeOKUnderFault)
	c.Count("crash_leftover_temp_files_seen", cs.temps)
	ns := map[string]string{}
	for key, list := range cs.effectiveNs {
		sort.Ints(list)
		ns[key] = fmt.Sprint(list)
	}
	k.extra["crash"] = map[string]any{"effective_injections_by_call_and_fault": cs.byFault, "fresh_process_outcomes": cs.outcomes,
		"effective_when_N_by_group": ns, "fault_free_syscalls_per_store": cs.baselineSyscalls}
	k.belowFloor("effective crash points", cs.effective, c.N(80, 600))
	k.belowFloor("effective crash points on cache files", cs.onCache, c.N(50, 400))
	k.belowFloor("kills at a syscall of Store", cs.killed, c.N(15, 150))
}
