// Command racemain is the in-process concurrent store/load workload of the C20 check. The
// check builds it with `go build -race` and counts the data-race reports whose stacks mention
// github.com/gopherjs/gopherjs.
package main

import (
	"os"

	"verif/internal/c20/cw"
)

func main() { os.Exit(cw.RaceMain(os.Args[1:])) }
