package c20

import (
	"encoding/json"
	"fmt"
	"math/rand"
	"os"
	"path/filepath"
	"sort"
	"strings"
	"time"

	"verif/internal/c20/cw"
)

// End-to-end staleness sweep: sequences of (build, edit, build …) through real build.Sessions
// that share ONE cache directory.
//
// A scenario is a small GOPATH workspace (two command packages, a dependency chain, three ad-hoc
// programs, .inc.js files everywhere, tag-dependent files) plus a script. The script first
// builds several targets in a random order (package builds through Import+BuildProject, ad-hoc
// builds of different file lists through BuildFiles, tagged and minified builds), then applies
// edits – every KIND of input in turn: a .go file, a .inc.js file, an added file, a removed file,
// a file of a dependency, of a dependency's dependency, a tag-only file – each followed by
// builds of an affected target and of an unrelated one. The scripts are a pure function of the
// seed; across the scenarios of one run every edit kind occurs at least once.
//
// Oracle (after EVERY build step): the JavaScript written by the session that uses the cache
// equals, byte for byte, the JavaScript written by a cache-less session on the same tree; a build
// that succeeds without cache succeeds with it; no package that was re-written since its entry
// was stored (nor an importer of it) is served from the cache.

type seqFile struct {
	id       string // marker id: the file's content carries the marker c20v_<id>_<version>
	path     string // relative to the GOPATH root
	pkg      string // import path of its package; "" for the ad-hoc directories
	tag      string // "": always part of the package; "+": only with c20tag; "-": only without
	optional bool   // added / removed by the edits instead of re-written
	gen      func(marker string) string
}

const seqTag = "c20tag"

func seqFiles() []seqFile {
	jsFile := func(global string) func(string) string {
		return func(m string) string { return "$global." + global + " = \"" + m + "\";\n" }
	}
	return []seqFile{
		{id: "progmain", path: "src/prog/main.go", pkg: "prog", gen: func(m string) string {
			return "package main\n\nimport (\n\t\"github.com/gopherjs/gopherjs/js\"\n\t\"prog/dep\"\n)\n\nfunc main() {\n\tprintln(\"" + m + "\")\n\tprintln(dep.Value())\n\tprintln(js.Global.Get(\"c20_proghelper\").String())\n\tprintln(tagBonus)\n}\n"
		}},
		{id: "progtagon", path: "src/prog/tag_on.go", pkg: "prog", tag: "+", gen: func(m string) string {
			return "//go:build " + seqTag + "\n\npackage main\n\nconst tagBonus = \"" + m + "\"\n"
		}},
		{id: "progtagoff", path: "src/prog/tag_off.go", pkg: "prog", tag: "-", gen: func(m string) string {
			return "//go:build !" + seqTag + "\n\npackage main\n\nconst tagBonus = \"" + m + "\"\n"
		}},
		{id: "proghelper", path: "src/prog/helper.inc.js", pkg: "prog", gen: jsFile("c20_proghelper")},
		{id: "progextra", path: "src/prog/extra.go", pkg: "prog", optional: true, gen: func(m string) string {
			return "package main\n\nvar extraInit = func() int { println(\"" + m + " var\"); return 1 }()\n\nfunc init() { println(\"" + m + " init\") }\n"
		}},
		{id: "progextrajs", path: "src/prog/extra.inc.js", pkg: "prog", optional: true, gen: jsFile("c20_progextrajs")},
		{id: "dep", path: "src/prog/dep/dep.go", pkg: "prog/dep", gen: func(m string) string {
			return "// Package dep is imported by prog, prog2 and the ad-hoc program b.\npackage dep\n\nimport (\n\t\"github.com/gopherjs/gopherjs/js\"\n\t\"prog/dep/leaf\"\n)\n\nfunc Value() string {\n\treturn \"" + m + " \" + leaf.Value() + \" \" + js.Global.Get(\"c20_depjs\").String()\n}\n"
		}},
		{id: "depjs", path: "src/prog/dep/dep.inc.js", pkg: "prog/dep", gen: jsFile("c20_depjs")},
		{id: "depextra", path: "src/prog/dep/extra.go", pkg: "prog/dep", optional: true, gen: func(m string) string {
			return "package dep\n\nfunc init() { println(\"" + m + "\") }\n"
		}},
		{id: "leaf", path: "src/prog/dep/leaf/leaf.go", pkg: "prog/dep/leaf", gen: func(m string) string {
			return "package leaf\n\nfunc Value() string { return \"" + m + "\" }\n"
		}},
		{id: "leafjs", path: "src/prog/dep/leaf/leaf.inc.js", pkg: "prog/dep/leaf", optional: true, gen: jsFile("c20_leafjs")},
		{id: "prog2main", path: "src/prog2/main.go", pkg: "prog2", gen: func(m string) string {
			return "package main\n\nimport \"prog/dep\"\n\nfunc main() {\n\tprintln(\"" + m + "\", dep.Value())\n}\n"
		}},
		// a command package whose import path is "main", the path every ad-hoc package gets
		{id: "pkgmain", path: "src/main/main.go", pkg: "main", gen: func(m string) string {
			return "package main\n\nfunc main() {\n\tprintln(\"" + m + "\")\n}\n"
		}},
		{id: "adamain", path: "src/adhoc/a/main.go", gen: func(m string) string {
			return "package main\n\nimport \"github.com/gopherjs/gopherjs/js\"\n\nfunc main() {\n\tprintln(\"" + m + "\")\n\tprintln(util())\n\tprintln(js.Global.Get(\"c20_adahelper\").String())\n}\n"
		}},
		{id: "adautil", path: "src/adhoc/a/util.go", gen: func(m string) string {
			return "package main\n\nfunc util() string { return \"" + m + "\" }\n"
		}},
		{id: "adahelper", path: "src/adhoc/a/h.inc.js", gen: jsFile("c20_adahelper")},
		{id: "adaalt", path: "src/adhoc/a/alt.go", gen: func(m string) string {
			return "package main\n\nfunc main() {\n\tfor i := 0; i < 2; i++ {\n\t\tprintln(\"" + m + "\", i)\n\t}\n}\n"
		}},
		{id: "adbmain", path: "src/adhoc/b/main.go", gen: func(m string) string {
			return "package main\n\nimport \"prog/dep\"\n\nfunc main() {\n\tprintln(\"" + m + "\")\n\tprintln(dep.Value())\n}\n"
		}},
	}
}

// who imports whom among the workspace packages (direct imports)
var seqImports = map[string][]string{
	"prog":     {"prog/dep"},
	"prog2":    {"prog/dep"},
	"prog/dep": {"prog/dep/leaf"},
}

// seqClosure returns pkg and everything it imports, transitively.
func seqClosure(pkgs ...string) []string {
	seen := map[string]bool{}
	var walk func(p string)
	walk = func(p string) {
		if seen[p] {
			return
		}
		seen[p] = true
		for _, q := range seqImports[p] {
			walk(q)
		}
	}
	for _, p := range pkgs {
		walk(p)
	}
	var out []string
	for p := range seen {
		out = append(out, p)
	}
	sort.Strings(out)
	return out
}

type seqTarget struct {
	name  string
	kind  string // shape class for the evidence: pkg, pkg-dot, pkg-tag, pkg-min, files, files-min
	step  cw.SeqStep
	pkgs  []string // workspace packages the build loads
	files []string // ids of the files of an ad-hoc build
}

func (t seqTarget) tagged() bool { return len(t.step.Tags) > 0 }

func seqTargets() []seqTarget {
	b := func(kind, importPath, dir string, files []string, tags []string, minify bool) cw.SeqStep {
		return cw.SeqStep{Op: "build", Kind: kind, ImportPath: importPath, Dir: dir, Files: files, Tags: tags, Minify: minify}
	}
	return []seqTarget{
		{name: "pkg:prog", kind: "pkg", step: b("pkg", "prog", "src", nil, nil, false), pkgs: seqClosure("prog")},
		{name: "pkg:prog(.)", kind: "pkg-dot", step: b("pkg", ".", "src/prog", nil, nil, false), pkgs: seqClosure("prog")},
		{name: "pkg:prog+tag", kind: "pkg-tag", step: b("pkg", "prog", "src", nil, []string{seqTag}, false), pkgs: seqClosure("prog")},
		{name: "pkg:prog+min", kind: "pkg-min", step: b("pkg", "prog", "src", nil, nil, true), pkgs: seqClosure("prog")},
		{name: "pkg:prog2", kind: "pkg", step: b("pkg", "prog2", "src", nil, nil, false), pkgs: seqClosure("prog2")},
		{name: "pkg:main", kind: "pkg-named-main", step: b("pkg", "main", "src", nil, nil, false), pkgs: []string{"main"}},
		{name: "files:a/main+util+h", kind: "files", step: b("files", "", "src/adhoc/a", []string{"main.go", "util.go", "h.inc.js"}, nil, false), files: []string{"adamain", "adautil", "adahelper"}},
		{name: "files:a/main+util", kind: "files", step: b("files", "", "src/adhoc/a", []string{"util.go", "main.go"}, nil, false), files: []string{"adamain", "adautil"}},
		{name: "files:a/alt", kind: "files", step: b("files", "", "src/adhoc/a", []string{"alt.go"}, nil, false), files: []string{"adaalt"}},
		{name: "files:b/main", kind: "files", step: b("files", "", "src/adhoc/b", []string{"main.go"}, nil, false), files: []string{"adbmain"}, pkgs: seqClosure("prog/dep")},
		{name: "files:b/main(from src)", kind: "files", step: b("files", "", "src", []string{"adhoc/b/main.go"}, nil, false), files: []string{"adbmain"}, pkgs: seqClosure("prog/dep")},
		{name: "files:a/alt+min", kind: "files-min", step: b("files", "", "src/adhoc/a", []string{"alt.go"}, nil, true), files: []string{"adaalt"}},
	}
}

func imin(a, b int) int {
	if a < b {
		return a
	}
	return b
}

func has(xs []string, x string) bool {
	for _, y := range xs {
		if x == y {
			return true
		}
	}
	return false
}

// inBuild: is the file part of what the target compiles (given it exists)?
func (t seqTarget) inBuild(f seqFile) bool {
	if f.pkg == "" {
		return has(t.files, f.id)
	}
	if !has(t.pkgs, f.pkg) {
		return false
	}
	switch f.tag {
	case "+":
		return t.tagged()
	case "-":
		return !t.tagged()
	}
	return true
}

// seqScenario is one generated script with the model needed to judge it.
type seqScenario struct {
	name    string
	initial map[string]int // file id → version present at the start (absent: not in the map)
	steps   []cw.SeqStep
	// per step: what the step is (parallel to steps)
	editFile []string // file id for write/remove steps
	target   []int    // index into seqTargets for build steps, else -1
}

func seqMarker(id string, version int) string { return fmt.Sprintf("c20v_%s_%d", id, version) }

// genSeqScenarios distributes all edit kinds over n scenarios.
func genSeqScenarios(r *rand.Rand, n, rounds int, tag string) []*seqScenario {
	files := seqFiles()
	targets := seqTargets()
	// every file is edited at least once per round, optional files twice (added and removed);
	// the rounds, each in its own random order, are dealt out to the scenarios
	var edits []int
	for round := 0; round < rounds; round++ {
		var one []int
		for i, f := range files {
			one = append(one, i)
			if f.optional {
				one = append(one, i)
			}
		}
		r.Shuffle(len(one), func(i, j int) { one[i], one[j] = one[j], one[i] })
		edits = append(edits, one...)
	}
	per := (len(edits) + n - 1) / n
	// an optional file occurs twice per round: where an even occurrence is the first edit of the
	// file in a scenario the file exists at the start (the edit removes it), where an odd one
	// is, it does not (the edit adds it) – so both kinds occur in every run
	occurrence := map[int]int{}
	startsPresent := make([]map[string]bool, n)
	for i, fi := range edits {
		s := i / per
		if startsPresent[s] == nil {
			startsPresent[s] = map[string]bool{}
		}
		if _, set := startsPresent[s][files[fi].id]; !set {
			startsPresent[s][files[fi].id] = occurrence[fi]%2 == 0
		}
		occurrence[fi]++
	}
	var out []*seqScenario
	for s := 0; s < n; s++ {
		sc := &seqScenario{name: fmt.Sprintf("%s%02d", tag, s), initial: map[string]int{}}
		version := map[string]int{}
		present := map[string]bool{}
		for _, f := range files {
			version[f.id] = 1
			there, fixed := startsPresent[s][f.id]
			if !fixed {
				there = r.Intn(2) == 0
			}
			if !f.optional || there {
				present[f.id] = true
				sc.initial[f.id] = 1
			}
		}
		addBuild := func(t int) {
			sc.steps = append(sc.steps, targets[t].step)
			sc.editFile = append(sc.editFile, "")
			sc.target = append(sc.target, t)
		}
		addEdit := func(fi int) {
			f := files[fi]
			var st cw.SeqStep
			if f.optional && present[f.id] {
				st = cw.SeqStep{Op: "remove", Path: f.path}
				present[f.id] = false
			} else {
				version[f.id]++
				st = cw.SeqStep{Op: "write", Path: f.path, Content: f.gen(seqMarker(f.id, version[f.id]))}
				present[f.id] = true
			}
			sc.steps = append(sc.steps, st)
			sc.editFile = append(sc.editFile, f.id)
			sc.target = append(sc.target, -1)
		}
		byKind := func(pred func(seqTarget) bool) []int {
			var xs []int
			for i, t := range targets {
				if pred(t) {
					xs = append(xs, i)
				}
			}
			return xs
		}
		pick := func(xs []int) int { return xs[r.Intn(len(xs))] }

		// phase 1: different programs against the empty cache, in a random order: at least two
		// DIFFERENT ad-hoc programs, a package build, and one more of any kind
		adhoc := byKind(func(t seqTarget) bool { return t.step.Kind == "files" })
		pkgsT := byKind(func(t seqTarget) bool { return t.step.Kind == "pkg" })
		a1 := pick(adhoc)
		a2 := pick(adhoc)
		for strings.Join(targets[a2].files, ",") == strings.Join(targets[a1].files, ",") {
			a2 = pick(adhoc)
		}
		first := []int{a1, a2, pick(pkgsT), r.Intn(len(targets))}
		r.Shuffle(len(first), func(i, j int) { first[i], first[j] = first[j], first[i] })
		for _, t := range first {
			addBuild(t)
		}

		// phase 2: edits, each followed by an affected build and, mostly, by another one
		mine := edits[imin(s*per, len(edits)):imin((s+1)*per, len(edits))]
		mine = append([]int{}, mine...)
		for len(mine) < per+1 { // one or more extra edits drawn at random
			mine = append(mine, r.Intn(len(files)))
		}
		for i := 0; i < len(mine); i++ {
			addEdit(mine[i])
			edited := []seqFile{files[mine[i]]}
			if i+1 < len(mine) && r.Intn(4) == 0 { // two edits before the next build
				i++
				addEdit(mine[i])
				edited = append(edited, files[mine[i]])
			}
			for _, f := range edited {
				aff := byKind(func(t seqTarget) bool { return t.inBuild(f) })
				if len(aff) > 0 {
					addBuild(pick(aff))
				}
			}
			if r.Intn(5) < 3 {
				addBuild(r.Intn(len(targets)))
			}
		}
		out = append(out, sc)
	}
	return out
}

type seqState struct {
	scenarios, builds, edits int
	userHits, mainHits       int
	hits, misses, stores     int
	editKinds                map[string]int
	targetKinds              map[string]int
	transitions              map[string]int // previous build kind → this build kind
	editThenBuild            map[string]int // "<edit kind class> → <target kind>"
	childFailed              int
}

var ss = &seqState{}

func (k *check) seqJobs() (jobs []func()) {
	c := k.c
	ss = &seqState{editKinds: map[string]int{}, targetKinds: map[string]int{}, transitions: map[string]int{}, editThenBuild: map[string]int{}}
	scs := genSeqScenarios(c.Rand("e2e-seq"), c.N(10, 60), c.N(1, 12), fmt.Sprintf("s%d-", c.Seed))
	for _, sc := range scs {
		sc := sc
		jobs = append(jobs, func() { k.runSeqScenario(sc) })
	}
	return jobs
}

func (k *check) runSeqScenario(sc *seqScenario) {
	c := k.c
	files := seqFiles()
	byID := map[string]seqFile{}
	for _, f := range files {
		byID[f.id] = f
	}
	targets := seqTargets()
	gp := c.Dir("seq-gopath")
	tree := map[string]string{}
	for _, f := range files {
		if v, ok := sc.initial[f.id]; ok {
			tree[f.path] = f.gen(seqMarker(f.id, v))
		}
	}
	for p, src := range tree {
		full := filepath.Join(gp, p)
		os.MkdirAll(filepath.Dir(full), 0o755)
		os.WriteFile(full, []byte(src), 0o644)
	}
	home := c.Dir("seq-cache")
	d := c.Dir("seq-out")
	job := cw.SeqJob{Scratch: c.Scratch, Root: gp, OutDir: filepath.Join(d, "js"), Steps: sc.steps, Out: filepath.Join(d, "out.json")}
	var res cw.SeqOut
	r, ok := k.child("c20-seq", home, job, job.Out, &res, 20*time.Minute, "GO111MODULE=off", "GOPATH="+gp, "GOGC=400", "GOMAXPROCS=4")
	if !ok || res.Error != "" {
		c.Inconclusive("e2e-seq-child-failed")
		fmt.Println("C20 e2e-seq: child failed for scenario", sc.name, res.Error, tail(r.Stdout+r.Stderr, 800))
		k.mu.Lock()
		ss.childFailed++
		k.mu.Unlock()
		return
	}
	script, _ := json.MarshalIndent(sc.steps, "", " ")
	bundle := func(upto int, b *cw.SeqBuild) map[string]string {
		out := map[string]string{"script.json": string(script)}
		for p, src := range tree {
			out["tree/"+p] = src
		}
		out["README.txt"] = fmt.Sprintf("GOPATH workspace at the start of the scenario under tree/ (GO111MODULE=off, GOPATH=<tree>).\nscript.json: the steps; every build step is run by a fresh build.Session with the build cache (verif hook VerifSetBuildCache,\none cache directory for the whole scenario) and by a cache-less session. Failing step: %d.\nReplay: vp c20-seq <job.json> with {Scratch, Root: <tree>, OutDir, Steps: script.json, Out}.\n", upto)
		if b != nil {
			for _, side := range []string{"cached", "ref"} {
				if js, err := os.ReadFile(filepath.Join(job.OutDir, fmt.Sprintf("%02d.%s.js", b.Step, side))); err == nil {
					out[fmt.Sprintf("step%02d.%s.js.tail", b.Step, side)] = tail(string(js), 6000)
				}
			}
		}
		return out
	}

	// replay the script on the model
	version := map[string]int{}
	present := map[string]bool{}
	for id, v := range sc.initial {
		version[id] = v
		present[id] = true
	}
	for _, f := range files {
		if version[f.id] == 0 {
			version[f.id] = 1
		}
	}
	// dirty[config][pkg]: the files of pkg (or of a package it imports) that were WRITTEN after
	// the last session of that configuration loaded pkg and that still exist (adding a file and
	// removing it again leaves the package as it was): while there is one, the next session of
	// that configuration must not get pkg from the cache
	dirty := map[string]map[string]map[string]bool{"": {}, seqTag: {}}
	importers := func(p string) []string {
		var out []string
		for q := range seqImports {
			if has(seqClosure(q), p) {
				out = append(out, q)
			}
		}
		if !has(out, p) {
			out = append(out, p)
		}
		return out
	}
	var pendingEdits []string                                          // edit kinds since the previous build
	removedSince := map[string]map[string][]string{"": {}, seqTag: {}} // config → package → ids of files removed since the package was last parsed
	prevKind := "start"
	mainStoredBy := "" // kind of the build that stored the entry "main" last
	bi := 0
	history := func(upto int) string {
		var sb strings.Builder
		for i := 0; i <= upto && i < len(sc.steps); i++ {
			st := sc.steps[i]
			switch st.Op {
			case "build":
				fmt.Fprintf(&sb, "  %2d build %s\n", i, targets[sc.target[i]].name)
			default:
				fmt.Fprintf(&sb, "  %2d %s %s\n", i, st.Op, st.Path)
			}
		}
		return sb.String()
	}
	for i, st := range sc.steps {
		if st.Op != "build" {
			f := byID[sc.editFile[i]]
			kind := st.Op
			if st.Op == "write" {
				if !present[f.id] {
					kind = "add"
				}
				version[f.id]++
				present[f.id] = true
				if f.pkg != "" {
					for cfg := range dirty {
						if f.tag == "+" && cfg != seqTag || f.tag == "-" && cfg == seqTag {
							continue
						}
						for _, p := range importers(f.pkg) {
							if dirty[cfg][p] == nil {
								dirty[cfg][p] = map[string]bool{}
							}
							dirty[cfg][p][f.id] = true
						}
					}
				}
			} else {
				present[f.id] = false
				for cfg := range dirty {
					for _, written := range dirty[cfg] {
						delete(written, f.id)
					}
				}
				for cfg := range removedSince {
					removedSince[cfg][f.pkg] = append(removedSince[cfg][f.pkg], f.id)
				}
			}
			class := kind + " " + map[bool]string{true: ".inc.js", false: ".go"}[strings.HasSuffix(f.path, ".js")]
			switch {
			case f.pkg == "":
				class += " of an ad-hoc program"
			case f.tag != "":
				class += " (tag-dependent file)"
			case f.pkg == "prog" || f.pkg == "prog2" || f.pkg == "main":
				class += " of the command package"
			case f.pkg == "prog/dep":
				class += " of a dependency"
			default:
				class += " of a dependency's dependency"
			}
			pendingEdits = append(pendingEdits, class)
			k.mu.Lock()
			ss.edits++
			ss.editKinds[f.id+"/"+kind]++
			k.mu.Unlock()
			continue
		}
		if bi >= len(res.Builds) || res.Builds[bi].Step != i {
			c.Inconclusive("e2e-seq-result-mismatch")
			return
		}
		b := res.Builds[bi]
		bi++
		t := targets[sc.target[i]]
		cfg := ""
		if t.tagged() {
			cfg = seqTag
		}
		key := fmt.Sprintf("e2e-seq/%s/step%02d", sc.name, i)
		where := fmt.Sprintf("scenario %s, step %d (build %s) after:\n%s", sc.name, i, t.name, history(i))

		// the model: markers the output must carry
		var want, wantNot []string
		for _, f := range files {
			if !t.inBuild(f) {
				continue
			}
			if present[f.id] {
				want = append(want, seqMarker(f.id, version[f.id]))
			}
		}
		judged := false
		switch {
		case b.RefErr != "":
			c.Inconclusive("e2e-seq-reference-build-fails")
			fmt.Printf("C20 e2e-seq: %s: the cache-less build fails (generator mishap): %s\n", where, firstLineOf(b.RefErr))
		case func() bool {
			for _, m := range want {
				if !has(b.RefMarkers, m) {
					wantNot = append(wantNot, m)
				}
			}
			return len(wantNot) > 0
		}():
			c.Inconclusive("e2e-seq-model-mismatch")
			fmt.Printf("C20 e2e-seq: %s: the cache-less output lacks the expected markers %v (has %v) – model mishap\n", where, wantNot, b.RefMarkers)
		default:
			judged = true
		}
		if judged {
			k.eval(2)
			switch {
			case b.CachedErr != "":
				k.violate(key+"/build-fails-with-cache", fmt.Sprintf("the build succeeds without cache but fails in the session that uses the cache: %s\n%s", firstLineOf(b.CachedErr), where), bundle(i, &b))
			case !b.Equal:
				// what the cached output has that the reference has not
				stale := minus(b.CachedMarkers, b.RefMarkers)
				missing := minus(b.RefMarkers, b.CachedMarkers)
				onlyRemoved := len(stale) > 0 && len(missing) == 0
				for _, m := range stale {
					id := strings.TrimPrefix(m[:strings.LastIndex(m, "_")], "c20v_")
					f, ok := byID[id]
					if !ok || present[id] || !has(removedSince[cfg][f.pkg], id) || !has(b.LoadHits, f.pkg) {
						onlyRemoved = false
					}
				}
				what := fmt.Sprintf("the JavaScript of the session that uses the cache differs from the cache-less build of the same tree (%d vs %d bytes): %s\nversion markers only in the cached output: %v; only in the cache-less output: %v; packages served from the cache: %v\n%s",
					b.CachedBytes, b.RefBytes, b.Diff, stale, missing, b.LoadHits, where)
				// an ad-hoc build (BuildFiles) stores its package under the import path "main" although
				// it never loads it; a real package with that import path then gets the entry
				adhocServed := t.name == "pkg:main" && has(b.LoadHits, "main") && mainStoredBy == "files" && len(stale) > 0
				for _, m := range stale {
					if strings.HasPrefix(m, "c20v_pkgmain_") {
						adhocServed = false
					}
				}
				for _, m := range missing {
					if !strings.HasPrefix(m, "c20v_pkgmain_") {
						adhocServed = false
					}
				}
				if adhocServed {
					k.classViolate("e2e-seq/adhoc-entry-served-to-package-main",
						"a command package whose import path is \"main\" ($GOPATH/src/main) is compiled from ANOTHER program's sources: Session.BuildFiles gives every ad-hoc package (gopherjs build x.go) the import path \"main\" and, although it makes sure never to LOAD that entry (SrcModTime = now+1h), LoadPackages still STORES it; the next build of the real package \"main\" finds an entry under its import path that is newer than its sources (verified per instance: \"main\" was a cache hit, the entry was last stored by an ad-hoc build, the output carries the ad-hoc program's markers and none of the package's own)",
						what, bundle(i, &b))
				} else if onlyRemoved {
					k.classViolate("e2e-seq/removed-file-still-compiled",
						"after a source file was REMOVED from a package (nothing else of the package touched) the next session restores the package from the cache and still compiles the removed file: the staleness test (PackageData.FileModTime / SrcModTime) only looks at the modification times of the files that still exist, a removal makes no source newer than the entry (verified per instance: the stale markers all belong to files removed since the entry was stored, their package was a cache hit, no current content is missing)",
						what, bundle(i, &b))
				} else {
					k.violate(key+"/output-differs", what, bundle(i, &b))
				}
			}
			if len(b.StoreFail) > 0 {
				k.violate(key+"/store-failed", fmt.Sprintf("Store failed in a healthy cache directory for %v\n%s", b.StoreFail, where), bundle(i, &b))
			}
			for _, p := range b.LoadHits {
				if p == "main" && (t.step.Kind == "files" || mainStoredBy == "files") {
					// the ad-hoc package, or an entry that an ad-hoc build stored (after the
					// re-write) under the import path of the package "main": judged by the output
					continue
				}
				if len(dirty[cfg][p]) > 0 {
					k.violate(key+"/stale-hit/"+p, fmt.Sprintf("package %s (or a package it imports) was re-written after its entry was stored, but the next session of the same configuration loaded it from the cache\n%s", p, where), bundle(i, &b))
				}
			}
		}
		// bookkeeping for every build that ran
		if has(b.StoreOK, "main") {
			mainStoredBy = t.step.Kind
		}
		for _, p := range append(append([]string{}, b.LoadHits...), b.LoadMiss...) {
			if p == "main" && t.step.Kind == "files" {
				continue // the ad-hoc package is not the workspace package "main"
			}
			delete(dirty[cfg], p)
			if has(b.LoadMiss, p) {
				delete(removedSince[cfg], p)
			}
		}
		k.mu.Lock()
		ss.builds++
		ss.hits += len(b.LoadHits)
		ss.misses += len(b.LoadMiss)
		ss.stores += len(b.StoreOK)
		for _, p := range b.LoadHits {
			switch {
			case p == "main" && t.step.Kind == "files":
				ss.mainHits++
			case p == "main":
				ss.userHits++
			case strings.HasPrefix(p, "prog"):
				ss.userHits++
			}
		}
		ss.targetKinds[t.kind]++
		ss.transitions[prevKind+" → "+t.kind]++
		k.distinct["seq/order/"+prevKind+"→"+t.kind] = true
		for _, e := range pendingEdits {
			ss.editThenBuild[e+" → "+t.kind]++
			k.distinct["seq/edit/"+e+"→"+t.kind] = true
		}
		k.distinct[fmt.Sprintf("seq/build/%s/%s/%s", t.name, b.RefSHA, strings.Join(b.LoadHits, ","))] = true
		ts.e2eBuilds += 2
		ts.e2eHits += len(b.LoadHits)
		ts.e2eMisses += len(b.LoadMiss)
		ts.e2eStores += len(b.StoreOK)
		k.mu.Unlock()
		pendingEdits = nil
		prevKind = t.kind
	}
	k.mu.Lock()
	ss.scenarios++
	first := ss.scenarios == 1
	k.mu.Unlock()
	if first {
		c.Sample(map[string]any{"e2e_seq_scenario": sc.name, "steps": strings.Split(strings.TrimSpace(history(len(sc.steps))), "\n")})
	}
}

func (k *check) finishSeq() {
	c := k.c
	if ss.editKinds == nil {
		return
	}
	c.Count("e2e_seq_scenarios", ss.scenarios)
	c.Count("e2e_seq_build_steps_judged", ss.builds)
	c.Count("e2e_seq_edits", ss.edits)
	c.Count("e2e_seq_cache_hits", ss.hits)
	c.Count("e2e_seq_cache_hits_workspace_packages", ss.userHits)
	c.Count("e2e_seq_cache_hits_adhoc_main", ss.mainHits)
	c.Count("e2e_seq_cache_misses", ss.misses)
	c.Count("e2e_seq_cache_stores", ss.stores)
	k.extra["e2e_seq_edit_kinds"] = ss.editKinds
	k.extra["e2e_seq_build_shapes"] = ss.targetKinds
	k.extra["e2e_seq_build_order_pairs"] = ss.transitions
	k.extra["e2e_seq_edit_then_build"] = ss.editThenBuild
	// every file of the workspace is edited in some scenario, optional files are added and removed
	wantKinds := 0
	for _, f := range seqFiles() {
		wantKinds++
		if f.optional {
			wantKinds++
		}
	}
	k.belowFloor("e2e-seq scenarios", ss.scenarios, c.N(9, 55))
	k.belowFloor("e2e-seq build steps", ss.builds, c.N(70, 450))
	k.belowFloor("e2e-seq edit kinds (file × write/add/remove)", len(ss.editKinds), wantKinds-2)
	k.belowFloor("e2e-seq cache hits on workspace packages", ss.userHits, c.N(20, 150))
	k.belowFloor("e2e-seq ad-hoc after ad-hoc builds", ss.transitions["files → files"]+ss.transitions["files → files-min"]+ss.transitions["files-min → files"], 1)
}
