package c20

import (
	"fmt"
	"math/rand"
	"path"
	"path/filepath"
	"strings"
	"time"

	"verif/internal/c20/cw"
)

var (
	isoGOOS    = []string{"js", "linux", "darwin", "windows", "wasip1", "dos", "amiga"}
	isoGOARCH  = []string{"ecmascript", "wasm", "amd64", "arm64", "m68k", "mos6502"}
	isoGOROOT  = []string{"/usr/lib/go-1.23", "/usr/local/go", "/opt/go1.20.14", "/", "/home/u/sdk/go1.20", "/usr/lib/go-1.2"}
	isoGOPATH  = []string{"/root/go", "/home/u/go", "/home/u/go:/srv/gopath", "", "/srv/gopath:/home/u/go", "/root/go2"}
	isoTags    = []string{"netgo", "purego", "math_big_pure_go", "gopherjs", "integration", "debug", "go1.20", "a", "b", "ab"}
	isoVersion = []string{"1.19.0-beta2+go1.20.14", "1.18.0+go1.18.10", "1.19.0-beta1+go1.19.13", "1.19.0-beta2+go1.20.1", ""}
	isoPaths   = []string{"fake/package", "github.com/user/repo/pkg", "prog/a", "prog/a/b", "prog/ab", "Prog/a", "main", "a", "net/http", "net/http/internal", "x_test", "x"}
)

func pick(r *rand.Rand, xs []string) string { return xs[r.Intn(len(xs))] }

func randCfg(r *rand.Rand) cw.Cfg {
	c := cw.Cfg{GOOS: pick(r, isoGOOS), GOARCH: pick(r, isoGOARCH), GOROOT: pick(r, isoGOROOT), GOPATH: pick(r, isoGOPATH), Version: pick(r, isoVersion)}
	perm := r.Perm(len(isoTags))
	for _, i := range perm[:r.Intn(5)] {
		c.Tags = append(c.Tags, isoTags[i])
	}
	if c.Tags == nil {
		c.Tags = []string{}
	}
	return c
}

func other(r *rand.Rand, xs []string, not string) string {
	for {
		if v := pick(r, xs); v != not {
			return v
		}
	}
}

// rawKey replicates the key derivation of cache.go (commonKey + packageKey before path.Join) –
// used ONLY to attribute an observed collision to its root cause, never as an oracle.
func rawKey(c cw.Cfg, ip string) []string {
	type commonKey struct {
		GOOS      string
		GOARCH    string
		GOROOT    string
		GOPATH    string
		BuildTags []string
		Version   string
	}
	ck := commonKey{c.GOOS, c.GOARCH, c.GOROOT, c.GOPATH, c.Tags, c.Version}
	if c.TagsNil {
		ck.BuildTags = nil
	}
	return []string{"package", strings.Replace(fmt.Sprintf("%#v", ck), "c20.commonKey", "cache.commonKey", 1), ip}
}

func (k *check) isoPairs(r *rand.Rand) []cw.IsoPair {
	var ps []cw.IsoPair
	add := func(kind string, judged bool, a, b cw.Cfg, ipa, ipb string) {
		ps = append(ps, cw.IsoPair{Name: fmt.Sprintf("%s#%d", kind, len(ps)), Kind: kind, Judged: judged, A: a, B: b, IPA: ipa, IPB: ipb})
	}
	reps := k.c.N(6, 60)
	for i := 0; i < reps; i++ {
		base := randCfg(r)
		ip := pick(r, isoPaths)
		b := base
		b.GOOS = other(r, isoGOOS, base.GOOS)
		add("GOOS", true, base, b, ip, ip)
		b = base
		b.GOARCH = other(r, isoGOARCH, base.GOARCH)
		add("GOARCH", true, base, b, ip, ip)
		b = base
		b.GOROOT = other(r, isoGOROOT, base.GOROOT)
		add("GOROOT", true, base, b, ip, ip)
		b = base
		b.GOPATH = other(r, isoGOPATH, base.GOPATH)
		add("GOPATH", true, base, b, ip, ip)
		b = base
		b.Version = other(r, isoVersion, base.Version)
		add("Version", true, base, b, ip, ip)
		add("ImportPath", true, base, base, ip, other(r, isoPaths, ip))
		// each build tag: dropped, added, replaced
		if len(base.Tags) > 0 {
			for d := range base.Tags {
				b = base
				b.Tags = append(append([]string{}, base.Tags[:d]...), base.Tags[d+1:]...)
				add("BuildTags-drop", true, base, b, ip, ip)
				b = base
				b.Tags = append([]string{}, base.Tags...)
				for {
					if t := pick(r, isoTags); !contains(base.Tags, t) {
						b.Tags[d] = t
						break
					}
				}
				add("BuildTags-replace", true, base, b, ip, ip)
			}
		}
		b = base
		for {
			if t := pick(r, isoTags); !contains(base.Tags, t) {
				b.Tags = append(append([]string{}, base.Tags...), t)
				break
			}
		}
		add("BuildTags-add", true, base, b, ip, ip)
		// the same tag set spelled differently is the same configuration: observed only
		if len(base.Tags) > 1 {
			b = base
			b.Tags = append([]string{}, base.Tags...)
			b.Tags[0], b.Tags[len(b.Tags)-1] = b.Tags[len(b.Tags)-1], b.Tags[0]
			add("BuildTags-order", false, base, b, ip, ip)
			b = base
			b.Tags = append(append([]string{}, base.Tags...), base.Tags[0])
			add("BuildTags-duplicate", false, base, b, ip, ip)
		}
		// values moved between neighbouring fields
		b = base
		b.GOOS, b.GOARCH = base.GOARCH, base.GOOS
		add("swap-GOOS-GOARCH", true, base, b, ip, ip)
		if base.GOROOT != base.GOPATH {
			b = base
			b.GOROOT, b.GOPATH = base.GOPATH, base.GOROOT
			add("swap-GOROOT-GOPATH", true, base, b, ip, ip)
		}
		b = base
		b.GOOS, b.GOARCH = base.GOOS+base.GOARCH[:1], base.GOARCH[1:]
		add("shift-GOOS-GOARCH", true, base, b, ip, ip)
		if len(base.Tags) > 0 {
			b = base
			b.Tags = base.Tags[:len(base.Tags)-1]
			b.Version = base.Tags[len(base.Tags)-1] + base.Version
			add("shift-tag-Version", true, base, b, ip, ip)
			b = base
			b.Tags = []string{strings.Join(base.Tags, `", "`)}
			if len(base.Tags) > 1 {
				add("tags-joined-with-quotes", true, base, b, ip, ip)
			}
			b = base
			b.Tags = []string{strings.Join(base.Tags, ",")}
			if len(base.Tags) > 1 {
				add("tags-joined-with-comma", true, base, b, ip, ip)
			}
		}
		b = base
		b.Version = base.Version + "/" + ip
		add("importpath-moved-into-Version", true, b, base, path.Base(ip), ip)
	}
	nilT := randCfg(r)
	nilT.Tags, nilT.TagsNil = nil, true
	empty := nilT
	empty.Tags, empty.TagsNil = []string{}, false
	add("BuildTags-nil-vs-empty", false, nilT, empty, "fake/package", "fake/package")

	// crafted: metacharacters of the %#v rendering and of path.Join
	base := cw.DefaultCfg()
	ip := "fake/package"
	craft := func(kind string, fa, fb func(*cw.Cfg), ipa, ipb string) {
		a, b := base, base
		a.Tags = append([]string{}, base.Tags...)
		b.Tags = append([]string{}, base.Tags...)
		fa(&a)
		fb(&b)
		add(kind, true, a, b, ipa, ipb)
	}
	nop := func(*cw.Cfg) {}
	// quoting: a value that contains the rendering of the following field
	craft("quote-injection-GOOS", func(c *cw.Cfg) { c.GOOS = `js", GOARCH:"x` }, func(c *cw.Cfg) { c.GOOS = "js"; c.GOARCH = "x" }, ip, ip)
	craft("quote-injection-Version", func(c *cw.Cfg) { c.Version = `v"}/fake` }, func(c *cw.Cfg) { c.Version = "v" }, "package", ip)
	craft("quote-injection-tags", func(c *cw.Cfg) { c.Tags = []string{`a", "b`} }, func(c *cw.Cfg) { c.Tags = []string{"a", "b"} }, ip, ip)
	craft("brace-in-tag", func(c *cw.Cfg) { c.Tags = []string{`a"}, Version:"x`} }, func(c *cw.Cfg) { c.Tags = []string{"a"}; c.Version = "x" }, ip, ip)
	craft("backslash", func(c *cw.Cfg) { c.Version = `v\` }, func(c *cw.Cfg) { c.Version = `v\\` }, ip, ip)
	craft("space-in-tag", func(c *cw.Cfg) { c.Tags = []string{"a b"} }, func(c *cw.Cfg) { c.Tags = []string{"a", "b"} }, ip, ip)
	craft("comma-space-in-tag", func(c *cw.Cfg) { c.Tags = []string{"a, b"} }, func(c *cw.Cfg) { c.Tags = []string{"a", "b"} }, ip, ip)
	craft("newline-in-version", func(c *cw.Cfg) { c.Version = "v\n" }, func(c *cw.Cfg) { c.Version = `v\n` }, ip, ip)
	craft("unicode-escape", func(c *cw.Cfg) { c.Version = "v\u00e9" }, func(c *cw.Cfg) { c.Version = `v\u00e9` }, ip, ip)
	craft("empty-vs-space", func(c *cw.Cfg) { c.GOOS = "" }, func(c *cw.Cfg) { c.GOOS = " " }, ip, ip)
	craft("percent", func(c *cw.Cfg) { c.Version = "%s" }, func(c *cw.Cfg) { c.Version = "%!s(MISSING)" }, ip, ip)
	// path.Join cleans the concatenation of "package", the rendered configuration and the import path
	craft("dotdot-in-Version", func(c *cw.Cfg) { c.Version = "1.0/../x" }, func(c *cw.Cfg) { c.Version = "2.0/../x" }, ip, ip)
	craft("dotdot-in-tag", func(c *cw.Cfg) { c.Tags = []string{"netgo", "t/../x"} }, func(c *cw.Cfg) { c.Tags = []string{"purego", "t/../x"} }, ip, ip)
	craft("dotdot-in-tag-eats-GOPATH-tail", func(c *cw.Cfg) { c.GOPATH = "/home/u/go"; c.Tags = []string{"t/../x"} }, func(c *cw.Cfg) { c.GOPATH = "/home/u/other"; c.Tags = []string{"t/../x"} }, ip, ip)
	craft("dotdot-in-GOOS", func(c *cw.Cfg) { c.GOOS = "js/../q" }, func(c *cw.Cfg) { c.GOOS = "linux/../q" }, ip, ip)
	craft("dot-segment-in-Version", func(c *cw.Cfg) { c.Version = "a/./b" }, func(c *cw.Cfg) { c.Version = "a/b" }, ip, ip)
	craft("double-slash-in-Version", func(c *cw.Cfg) { c.Version = "a//b" }, func(c *cw.Cfg) { c.Version = "a/b" }, ip, ip)
	craft("slash-in-tag-vs-version", func(c *cw.Cfg) { c.Tags = []string{"a/b"} }, func(c *cw.Cfg) { c.Tags = []string{"a"}; c.Version = "b" }, ip, ip)
	craft("dotdot-importpath-eats-version", func(c *cw.Cfg) { c.Version = "1" }, func(c *cw.Cfg) { c.Version = "2" }, "../x", "../x")
	craft("trailing-slash-Version", func(c *cw.Cfg) { c.Version = "v/" }, func(c *cw.Cfg) { c.Version = "v" }, ip, ip)
	// spellings of one clean path: the same configuration, observed only
	obs := func(kind string, fa, fb func(*cw.Cfg), ipa, ipb string) {
		craft(kind, fa, fb, ipa, ipb)
		ps[len(ps)-1].Judged = false
	}
	obs("spelling-GOROOT-dotdot", func(c *cw.Cfg) { c.GOROOT = "/usr/lib/x/../go-1.23" }, func(c *cw.Cfg) { c.GOROOT = "/usr/lib/go-1.23" }, ip, ip)
	obs("spelling-GOROOT-trailing-slash", func(c *cw.Cfg) { c.GOROOT = "/usr/lib/go-1.23/" }, func(c *cw.Cfg) { c.GOROOT = "/usr/lib/go-1.23" }, ip, ip)
	obs("spelling-GOPATH-double-slash", func(c *cw.Cfg) { c.GOPATH = "/root//go" }, func(c *cw.Cfg) { c.GOPATH = "/root/go" }, ip, ip)
	obs("spelling-importpath-trailing-slash", nop, nop, "fake/package/", "fake/package")
	obs("spelling-importpath-dot", nop, nop, "fake/./package", "fake/package")
	obs("spelling-importpath-dotdot", nop, nop, "fake/x/../package", "fake/package")
	return ps
}

func contains(xs []string, x string) bool {
	for _, y := range xs {
		if x == y {
			return true
		}
	}
	return false
}

func (k *check) timeCases(r *rand.Rand) []cw.TimeCase {
	var out []cw.TimeCase
	le := func(s1, n1, s2, n2 int64) bool { return s1 < s2 || (s1 == s2 && n1 <= n2) }
	add := func(name string, bs, bn, ss, sn int64) {
		// hit iff the sources are not newer than the entry
		out = append(out, cw.TimeCase{Name: name, BuildSec: bs, BuildNsec: bn, SrcSec: ss, SrcNsec: sn, ExpectHit: le(ss, sn, bs, bn)})
	}
	const zeroSec = -62135596800 // time.Time{}.Unix()
	B, Bn := int64(1700000000), int64(500000000)
	add("equal", B, Bn, B, Bn)
	add("src-1ns-older", B, Bn, B, Bn-1)
	add("src-1ns-newer", B, Bn, B, Bn+1)
	add("src-1s-older", B, Bn, B-1, Bn)
	add("src-1s-newer", B, Bn, B+1, Bn)
	add("sec-boundary-older", B, 0, B-1, 999999999)
	add("sec-boundary-newer", B-1, 999999999, B, 0)
	add("src-zero-time", B, Bn, zeroSec, 0)
	add("build-zero-time", zeroSec, 0, B, Bn)
	add("both-zero-time", zeroSec, 0, zeroSec, 0)
	add("build-zero-src-1ns-after-zero", zeroSec, 0, zeroSec, 1)
	add("src-far-future", B, Bn, 253402300799, 999999999) // 9999-12-31
	add("build-far-future", 253402300799, 999999999, B, Bn)
	add("both-far-future-equal", 1<<40, 7, 1<<40, 7)
	add("both-far-future-newer", 1<<40, 7, 1<<40, 8)
	add("before-1970-older", -5, 100, -6, 100)
	add("before-1970-newer", -6, 100, -5, 100)
	add("epoch", 0, 0, 0, 0)
	out = append(out, cw.TimeCase{Name: "zero-value-times", BuildZero: true, SrcZero: true, ExpectHit: true})
	out = append(out, cw.TimeCase{Name: "zero-value-build-real-src", BuildZero: true, SrcSec: B, ExpectHit: false})
	out = append(out, cw.TimeCase{Name: "real-build-zero-value-src", BuildSec: B, SrcZero: true, ExpectHit: true})
	out = append(out, cw.TimeCase{Name: "other-zone-equal", BuildSec: B, BuildNsec: Bn, SrcSec: B, SrcNsec: Bn, SrcZoneSec: 19800, ExpectHit: true})
	out = append(out, cw.TimeCase{Name: "other-zone-1ns-newer", BuildSec: B, BuildNsec: Bn, SrcSec: B, SrcNsec: Bn + 1, SrcZoneSec: -36000, ExpectHit: false})
	out = append(out, cw.TimeCase{Name: "other-zone-1ns-older", BuildSec: B, BuildNsec: Bn, SrcSec: B, SrcNsec: Bn - 1, SrcZoneSec: 3600, ExpectHit: true})
	// build time with a monotonic clock reading (what Session.LoadPackages passes: time.Now())
	out = append(out, cw.TimeCase{Name: "now-src-equal", BuildNow: true, ExpectHit: true})
	out = append(out, cw.TimeCase{Name: "now-src-1ns-older", BuildNow: true, SrcNsec: -1, ExpectHit: true})
	out = append(out, cw.TimeCase{Name: "now-src-1ns-newer", BuildNow: true, SrcNsec: 1, ExpectHit: false})
	out = append(out, cw.TimeCase{Name: "now-src-1s-newer", BuildNow: true, SrcSec: 1, ExpectHit: false})
	out = append(out, cw.TimeCase{Name: "now-src-1s-older", BuildNow: true, SrcSec: -1, ExpectHit: true})
	deltas := []int64{-1000000000, -1000, -1, 0, 1, 1000, 1000000000}
	for i := 0; i < k.c.N(150, 5000); i++ {
		bs, bn := r.Int63n(4000000000)-1000000000, r.Int63n(1000000000)
		var ss, sn int64
		if r.Intn(3) == 0 {
			ss, sn = r.Int63n(4000000000)-1000000000, r.Int63n(1000000000)
		} else {
			t := time.Unix(bs, bn).Add(time.Duration(deltas[r.Intn(len(deltas))]))
			ss, sn = t.Unix(), int64(t.Nanosecond())
		}
		add(fmt.Sprintf("random#%d", i), bs, bn, ss, sn)
	}
	return out
}

type isoState struct {
	pairsJudged, pairsObserved int
	observedHit                map[string]int
	kinds                      map[string]int
	times, timeHits            int
	testedChecks               int
}

var is = &isoState{}

func (k *check) isolationJobs() (jobs, post []func()) {
	c := k.c
	is = &isoState{observedHit: map[string]int{}, kinds: map[string]int{}}
	pairs := k.isoPairs(c.Rand("iso"))
	times := k.timeCases(c.Rand("times"))
	tested := []string{"fake/package", "main", "github.com/user/repo/pkg", "x_test", "a", "prog/c00", "net/http"}
	shards := 4
	for sh := 0; sh < shards; sh++ {
		sh := sh
		jobs = append(jobs, func() {
			d := c.Dir("iso")
			job := cw.IsoJob{Scratch: c.Scratch, Out: filepath.Join(d, "out.json")}
			byName := map[string]cw.IsoPair{}
			for i, p := range pairs {
				if i%shards == sh {
					job.Pairs = append(job.Pairs, p)
					byName[p.Name] = p
				}
			}
			for i, t := range times {
				if i%shards == sh {
					job.Times = append(job.Times, t)
				}
			}
			for i, t := range tested {
				if i%shards == sh {
					job.Tested = append(job.Tested, t)
				}
			}
			var out cw.IsoOut
			r, ok := k.child("c20-iso", d, job, job.Out, &out, 10*time.Minute)
			if !ok {
				c.Inconclusive("iso-child-failed")
				fmt.Println("c20-iso child failed:", tail(r.Stderr, 600))
				return
			}
			for _, pr := range out.Pairs {
				k.judgePair(byName[pr.Name], pr)
			}
			for _, tr := range out.Times {
				k.eval(1)
				k.seen("time/" + tr.Name)
				k.mu.Lock()
				is.times++
				if tr.Hit {
					is.timeHits++
				}
				k.mu.Unlock()
				switch {
				case !tr.Stored:
					k.violate("staleness/"+tr.Name+"/store-failed", "Store failed for time case "+tr.Name, nil)
				case tr.Hit != tr.ExpectHit:
					k.violate("staleness/"+tr.Name, fmt.Sprintf("time case %s: Load hit=%v, but an entry must be returned iff the sources are not newer than it (expected hit=%v)", tr.Name, tr.Hit, tr.ExpectHit), nil)
				case tr.Hit && !tr.ContentOK:
					k.violate("staleness/"+tr.Name+"/content", "time case "+tr.Name+": hit with different content", nil)
				}
			}
			for _, te := range out.Tested {
				k.eval(te.Checks)
				k.seen("tested/" + te.P)
				k.mu.Lock()
				is.testedChecks += te.Checks
				k.mu.Unlock()
				if len(te.Problems) > 0 {
					k.violate("tested-package/"+te.P, fmt.Sprintf("TestedPackage=%q: %s", te.P, strings.Join(te.Problems, "; ")), nil)
				}
			}
		})
	}
	post = append(post, func() {
		c.Count("config_pairs_judged", is.pairsJudged)
		c.Count("config_pairs_same_configuration_observed_only", is.pairsObserved)
		c.Count("timestamp_cases", is.times)
		c.Count("timestamp_cases_hit", is.timeHits)
		c.Count("tested_package_checks", is.testedChecks)
		k.extra["config_pair_kinds"] = is.kinds
		k.extra["same_configuration_pairs_that_shared_an_entry"] = is.observedHit
		k.belowFloor("configuration pairs", is.pairsJudged, 80)
		k.belowFloor("timestamp cases", is.times, 100)
		k.belowFloor("tested-package checks", is.testedChecks, 40)
	})
	return
}

func (k *check) judgePair(p cw.IsoPair, r cw.IsoPairRes) {
	k.eval(3)
	k.mu.Lock()
	is.kinds[r.Kind]++
	if r.Judged {
		is.pairsJudged++
		k.distinct["pair/"+r.Name] = true
	} else {
		is.pairsObserved++
		if r.CrossHitAB || r.CrossHitBA {
			is.observedHit[r.Kind]++
		}
	}
	n := is.pairsJudged
	k.mu.Unlock()
	if n%97 == 1 && r.Judged {
		k.c.Sample(map[string]any{"config_pair": r.Name, "A": p.A, "B": p.B, "importA": p.IPA, "importB": p.IPB, "cross_hit": r.CrossHitAB || r.CrossHitBA})
	}
	desc := fmt.Sprintf("A=%+v import %q; B=%+v import %q", p.A, p.IPA, p.B, p.IPB)
	if r.Panic != "" {
		k.violate("isolation/"+r.Name+"/panic", "panic: "+r.Panic+"; "+desc, nil)
		return
	}
	if !r.SanityOK {
		k.violate("isolation/"+r.Name+"/store-load-failed", "an entry stored under a configuration does not load under the very same configuration: "+desc, nil)
		return
	}
	if !r.Judged {
		return
	}
	if r.CrossHitAB || r.CrossHitBA || !r.BothOK {
		what := fmt.Sprintf("configurations differing in %s share a cache entry (stored under A loads under B: %v; stored under B loads under A: %v; both stored: %s): %s",
			r.Kind, r.CrossHitAB, r.CrossHitBA, r.BothDetail, desc)
		ka, kb := rawKey(p.A, p.IPA), rawKey(p.B, p.IPB)
		if strings.Join(ka, "\x00") != strings.Join(kb, "\x00") && path.Join(ka...) == path.Join(kb...) {
			// root cause attributed: the distinct raw keys become equal only through the
			// path cleaning done by path.Join in cachedPath/packageKey
			k.classViolate("key-collision-by-path-cleaning",
				"two different configurations map to the same cache file because packageKey/cachedPath pass the rendered configuration through path.Join, which cleans `..`, `.` and empty segments across field boundaries",
				what+fmt.Sprintf("\n  raw keys %q and %q both clean to %q", path.Join(ka[0], "")+"/"+ka[1]+"/"+ka[2], kb[0]+"/"+kb[1]+"/"+kb[2], path.Join(ka...)), nil)
			return
		}
		k.violate("isolation/"+r.Name, what, nil)
	}
}
