// Package c16 – minification preserves behaviour.
//
// Every program is built plain and with Minify:true in the same way (in-process session,
// same options otherwise); both emitted files must pass `node --check` and produce the trace
// of the reference toolchain. Workloads: progen programs (shadowing chains, JS-reserved and
// unicode identifiers, closures) and a "minify" profile that walks the short-name allocator
// past the 1-, 2- and 3-letter boundaries and stresses whitespace/comment removal.
package c16

import (
	"fmt"
	"math/rand"
	"strings"
	"sync"

	"verif/internal/core"
	"verif/internal/progen"
	"verif/internal/proglib"
)

// manyLocals builds a function with n simultaneously live locals.
func manyLocals(b *strings.Builder, name string, n int, r *rand.Rand) {
	fmt.Fprintf(b, "func %s(seed I) I {\n", name)
	fmt.Fprintf(b, "\tl0 := seed\n")
	for i := 1; i < n; i++ {
		switch r.Intn(4) {
		case 0:
			fmt.Fprintf(b, "\tl%d := l%d + %d\n", i, i-1, r.Intn(9)+1)
		case 1:
			fmt.Fprintf(b, "\tl%d := l%d ^ l%d\n", i, i-1, r.Intn(i))
		case 2:
			fmt.Fprintf(b, "\tl%d := l%d*3 - l%d\n", i, r.Intn(i), i-1)
		default:
			fmt.Fprintf(b, "\tvar l%d I = l%d - -%d\n", i, i-1, r.Intn(5))
		}
	}
	// all locals stay live until here; closures capture a few of them
	b.WriteString("\tsum := I(0)\n")
	fmt.Fprintf(b, "\tf := func(do I) I { return do + l%d + l%d }\n", r.Intn(n), n-1)
	for i := 0; i < n; i++ {
		fmt.Fprintf(b, "\tsum = sum*31 + l%d\n", i)
	}
	b.WriteString("\treturn sum + f(1)\n}\n\n")
}

func MinifyProgram(r *rand.Rand, big int) map[string]string {
	var b strings.Builder
	b.WriteString("package main\n\n")
	manyLocals(&b, "locals30", 30, r)
	manyLocals(&b, "locals60", 60, r)
	manyLocals(&b, "locals710", 710+r.Intn(40), r)
	if big > 0 {
		manyLocals(&b, "localsBig", big, r)
	}
	// many package level objects (upper-case short-name space, > 26 and > 702)
	npkg := 720 + r.Intn(60)
	for i := 0; i < npkg; i++ {
		switch i % 3 {
		case 0:
			fmt.Fprintf(&b, "func pf%d(a I) I { return a + %d }\n", i, i)
		case 1:
			fmt.Fprintf(&b, "var pv%d = I(%d)\n", i, i)
		default:
			fmt.Fprintf(&b, "type pt%d struct{ do, if_, in I }\n\nfunc (p pt%d) m() I { return p.do + p.if_ + p.in + %d }\n", i, i, i)
		}
	}
	// identifiers of every length from 100 to 320 (names travel through the minifier inside
	// length-prefixed source-map hints): functions with a literal inside, types with methods
	b.WriteString("func useLong() I {\n\ts := I(0)\n")
	var longDecls strings.Builder
	for l := 100; l <= 320; l++ {
		name := fmt.Sprintf("long%d_", l)
		name += strings.Repeat("abcdefghij", 40)[:l-len(name)]
		switch l % 3 {
		case 0:
			fmt.Fprintf(&longDecls, "func %s(a I) I {\n\treturn func(b I) I { return a + b + %d }(a)\n}\n\n", name, l)
			fmt.Fprintf(&b, "\ts += %s(s)\n", name)
		case 1:
			fmt.Fprintf(&longDecls, "type T%s struct{ do I }\n\nfunc (t T%s) M%s(a I) I {\n\treturn func() I { return t.do + a + %d }()\n}\n\n", name, name, name, l)
			fmt.Fprintf(&b, "\ts += T%s{%d}.M%s(s)\n", name, l, name)
		default:
			fmt.Fprintf(&longDecls, "var v%s = func(a I) I { return a ^ %d }\n\n", name, l)
			fmt.Fprintf(&b, "\ts += v%s(s)\n", name)
		}
	}
	b.WriteString("\treturn s\n}\n\n")
	b.WriteString(longDecls.String())
	b.WriteString("func usePkg() I {\n\ts := I(0)\n")
	for i := 0; i < npkg; i++ {
		switch i % 3 {
		case 0:
			fmt.Fprintf(&b, "\ts += pf%d(s)\n", i)
		case 1:
			fmt.Fprintf(&b, "\ts ^= pv%d\n", i)
		default:
			fmt.Fprintf(&b, "\ts += pt%d{1, 2, 3}.m()\n", i)
		}
	}
	b.WriteString("\treturn s\n}\n\n")
	// deep closure nesting re-using short names across scopes, with shadowing
	depth := 12 + r.Intn(8)
	b.WriteString("func nest(a I) I {\n")
	for d := 0; d < depth; d++ {
		fmt.Fprintf(&b, "%sa = a + %d\n%sb%d := a * 2\n%sreturn func(a I) I {\n", strings.Repeat("\t", d+1), d, strings.Repeat("\t", d+1), d, strings.Repeat("\t", d+1))
	}
	inner := "a"
	for d := 0; d < depth; d++ {
		inner += fmt.Sprintf(" + b%d", d)
	}
	fmt.Fprintf(&b, "%sreturn %s\n", strings.Repeat("\t", depth+1), inner)
	for d := depth - 1; d >= 0; d-- {
		fmt.Fprintf(&b, "%s}(a - %d)\n", strings.Repeat("\t", d+1), d)
	}
	b.WriteString("}\n\n")
	// adjacent unary/binary operators and string contents that look like code
	b.WriteString(`func ops(a, b I, x, y float64) string {
	s := ""
	s += itoa(int(a - -b)) + ","
	s += itoa(int(a - (-b))) + ","
	s += itoa(int(- -a)) + ","
	s += itoa(int(-(-a))) + ","
	s += itoa(int(a + +b)) + ","
	s += itoa(int(a - -1)) + ","
	s += itoa(int(a + -1)) + ","
	s += itoa(int(-a - -b - -a)) + ","
	c := a
	c--
	d := -c
	c++
	e := +c
	s += itoa(int(d)) + itoa(int(e)) + ","
	s += hex64(uint64(int64(x - -y))) + ","
	s += hex64(uint64(int64(-x - -y))) + ","
	p := &a
	s += itoa(int(*p * *p)) + itoa(int(b / *p)) + ","
	var i64 int64 = int64(a)
	s += i64s(i64 - -i64) + i64s(- -i64) + ","
	if a < -b || a > -b && !(a == -b) {
		s += "cmp,"
	}
	return s
}

var strs = []string{
	"a  b", "  lead", "trail  ", "tab\there", "x /* not a comment */ y", "x // not a comment", "quote\" inside", "back\\slash", "end\\",
	"'single'", "\x60tick\x60", "new\nline", "a - -b", "- -", "+ +", "function(){ return 1 }", "var $x = 1;", "\x08hint-byte", "/*", "*/", "//", "\\\"",
	"  ", " ", "", "{ }", "( )", "[ ]", "a ; b", "a , b", "a = b", "a == b", "=>", " ", " nbsp", "é  è", "名  前",
	` + "`raw  string with \\ and \" and // and /* */`" + `,
}

func strsDigest() string {
	f := newFnv()
	for _, s := range strs {
		f.addStr(s)
		f.add64(uint64(len(s)))
	}
	return f.sum()
}

type T struct {
	in, do, if_, for_, int_, let, new_, try, var_ I
}

func (t T) sum() I { return t.in + t.do + t.if_ + t.for_ + t.int_ + t.let + t.new_ + t.try + t.var_ }

func labels() string {
	s := ""
do:
	for i := 0; i < 3; i++ {
	in:
		for j := 0; j < 3; j++ {
			switch {
			case j == 1:
				continue in
			case i == 2:
				break do
			}
			s += itoa(i) + itoa(j)
		}
	}
	return s
}

func main() {
	println("locals30 " + itoa(int(locals30(3))))
	println("locals60 " + itoa(int(locals60(5))))
	println("locals710 " + itoa(int(locals710(7))))
`)
	if big > 0 {
		b.WriteString("\tprintln(\"localsBig \" + itoa(int(localsBig(9))))\n")
	}
	b.WriteString(`	println("useLong " + itoa(int(useLong())))
	println("usePkg " + itoa(int(usePkg())))
	println("nest " + itoa(int(nest(1))))
	println("ops " + ops(5, 7, 2.5, 1.25) + ops(-3, 3, -0.5, 8))
	println("strs " + strsDigest())
	for i, s := range strs {
		println("str " + itoa(i) + " " + q(s))
	}
	println("T " + itoa(int(T{1, 2, 3, 4, 5, 6, 7, 8, 9}.sum())))
	println("labels " + labels())
	println("END")
}
`)
	return proglib.WithLib(map[string]string{"main.go": b.String()})
}

// jsSnippets are statements of a .inc.js file; each stores one observable value under
// $global.vpInc[<key>]. They stress what a JavaScript minifier and the concatenation of the
// minified chunk with the surrounding package code can get wrong.
var jsSnippets = []string{
	`vp.K = (function() { return "plain" + 1; })();`,
	`vp.K = "a // not a comment";`,
	`vp.K = "a /* not a comment */ b";`,
	"vp.K = `template ${1 + 1}\nline two // x`;",
	`vp.K = "x".replace(/\/\/|\/\*/g, "y") + /[/]/.source;`,
	`vp.K = (function() {
	return (
		"multi" +
		"line"
	);
})();`,
	`var K_tmp = 3
var K_tmp2 = K_tmp
;[1, 2].forEach(function(v) { K_tmp2 += v })
vp.K = "asi" + K_tmp2;`,
	`vp.K = "a" + + "1" + - -2;`,
	`/* block comment before */ vp.K = "after-block"; /* and after */`,
	`// line comment before
vp.K = "after-line"; // trailing comment`,
	`/*! legal block comment */
vp.K = "legal-block";`,
	`vp.K = 'single \'quoted\' "double"';`,
	`vp.K = "\u00e9\u540d";`,
	`vp.K = String(1 / 3).length + ":" + (0.1 + 0.2 === 0.3);`,
	`if (typeof vp.K === "undefined") { vp.K = "if" } else { vp.K = "else" }`,
	`vp.K = (function() { label: for (var i = 0; i < 3; i++) { for (;;) { continue label } } return "label" + i })();`,
}

// jsTrailers end a .inc.js file: whatever the file ends with must not swallow or break the
// code the compiler writes after the chunk.
var jsTrailers = []string{
	"", "\n", "\n\n", "// plain trailing comment", "// plain trailing comment\n", "//! legal line comment at the end", "//! legal line comment at the end\n",
	"// @license MIT", "// @preserve this", "/*! legal block at the end */", "/* block at the end */\n", "//# sourceMappingURL=nothing.js.map", ";", ";;\n",
	"/* unterminated-looking // */", "var vpIncLast = 1", "var vpIncLast = 1 // no semicolon, comment",
}

// IncJSProgram is a program whose package ships several .inc.js files.
func IncJSProgram(r *rand.Rand) (map[string]string, int) {
	files := map[string]string{}
	var keys []string
	nf := 1 + r.Intn(3)
	for f := 0; f < nf; f++ {
		var b strings.Builder
		if r.Intn(3) == 0 {
			b.WriteString([]string{"//! leading legal comment\n", "/*! leading legal block */\n", "// @license leading\n", "\"use strict\";\n"}[r.Intn(4)])
		}
		b.WriteString("var vp = $global.vpInc = $global.vpInc || {};\n")
		for k := 0; k < 3+r.Intn(6); k++ {
			key := fmt.Sprintf("k%d_%d", f, k)
			keys = append(keys, key)
			sn := jsSnippets[r.Intn(len(jsSnippets))]
			b.WriteString(strings.ReplaceAll(sn, "K", key) + "\n")
			if r.Intn(5) == 0 {
				b.WriteString([]string{"//! legal comment in the middle\n", "/*! legal block in the middle */\n", "// @preserve middle\n"}[r.Intn(3)])
			}
		}
		b.WriteString(jsTrailers[r.Intn(len(jsTrailers))])
		files[fmt.Sprintf("%c_part.inc.js", 'a'+f)] = b.String()
	}
	var m strings.Builder
	m.WriteString("package main\n\nimport \"github.com/gopherjs/gopherjs/js\"\n\nfunc main() {\n\tvp := js.Global.Get(\"vpInc\")\n")
	for _, k := range keys {
		fmt.Fprintf(&m, "\tprintln(\"J %s \" + q(vp.Get(%q).String()))\n", k, k)
	}
	m.WriteString("\tprintln(\"END\")\n}\n")
	files["main.go"] = m.String()
	return proglib.WithLib(files), len(keys)
}

// Run is the C16 check.
func Run(c *core.Ctx) int {
	type job struct {
		prog *core.Program
		kind string
	}
	var jobs []job
	np := c.N(3, 30)
	for i := 0; i < np; i++ {
		big := 0
		if !c.Quick() && i%6 == 0 {
			big = 18300 + i // past the 3-letter boundary (26+26²·… names)
		}
		jobs = append(jobs, job{&core.Program{Name: fmt.Sprintf("c16/minify-profile-%d", i), Files: MinifyProgram(c.Rand(fmt.Sprint("mp", i)), big)}, "profile"})
	}
	for i := 0; i < c.N(16, 120); i++ {
		files, _ := IncJSProgram(c.Rand(fmt.Sprint("incjs", i)))
		jobs = append(jobs, job{&core.Program{Name: fmt.Sprintf("c16/incjs-%d-%d", c.Seed, i), Files: files}, "profile"})
	}
	ng := c.N(28, 200)
	for i := 0; i < ng; i++ {
		r := c.Rand(fmt.Sprint("gen", i))
		p := progen.Generate(r, progen.Options{Cases: 8 + r.Intn(8), StmtsPer: 6 + r.Intn(8), BoxStruct: true})
		jobs = append(jobs, job{&core.Program{Name: fmt.Sprintf("c16/gen-%d-%d", c.Seed, i), Files: p.Files}, "generated"})
	}
	var mu sync.Mutex
	programs, lines := 0, 0
	distinct := map[string]bool{}
	c.Parallel(len(jobs), func(i int) {
		j := jobs[i]
		// the profile programs (hundreds of live locals) take minutes to compile with the
		// reference toolchain; for them the oracle is the property's own: plain ≟ minified
		res := c.DiffProgram(j.prog, core.DiffOpt{Variants: []core.CompileOpt{{}, {Minify: true}}, Names: []string{"plain", "minified"}, Quiet: true, NoNative: j.kind == "profile"})
		if j.kind == "profile" && res.Verdict != "inconclusive" && len(res.JS) == 2 {
			last := ""
			if n := len(res.JS[0].Lines); n > 0 {
				last = res.JS[0].Lines[n-1]
			}
			if last != "END" || res.JS[0].Outcome != "ok" {
				res.Verdict = "violated"
				res.Diff = "profile program did not run to its END line in the plain build: outcome " + res.JS[0].Outcome
			}
		}
		mu.Lock()
		defer mu.Unlock()
		if res.Verdict == "inconclusive" {
			return
		}
		if res.Verdict == "violated" {
			what := res.Diff
			if len(res.JS) == 2 {
				if d := core.DiffTrace(res.JS[0], res.JS[1], "plain", "minified"); d != "" {
					what = "minification changes behaviour: " + d
				} else {
					what = "plain and minified builds agree with each other but differ from the reference (not minification specific): " + res.Diff
				}
			}
			files := map[string]string{"diff.txt": what}
			for k, v := range j.prog.Files {
				files["src/"+k] = v
			}
			for vi, t := range res.JS {
				files[[]string{"plain.out", "minified.out"}[vi]] = t.String()
			}
			files["ref.out"] = res.Ref.String()
			c.Violate(j.prog.Name, j.prog.Name+": "+what, files)
		}
		programs++
		lines += res.Lines
		distinct[fmt.Sprint(j.kind, res.Lines, res.Ref.Outcome)] = true
		if programs <= 3 {
			c.Sample(map[string]any{"program": j.prog.Name, "kind": j.kind, "trace_lines": res.Lines})
		}
	})
	c.Count("programs", programs)
	c.Count("trace_lines_compared_x2", lines)
	return c.Finish("exploration", programs, len(distinct), len(jobs)/3,
		"each program is built plain and minified (in-process session, Minify:true), both files pass node --check and both traces equal the reference toolchain's. Workloads: progen programs (shadowing chains, JS-reserved/unicode identifiers, closures, labels) and a minify profile: functions with 30/60/~730 (thorough: ~18300) simultaneously live locals captured by closures, ~750 package-level functions/variables/types, closure nesting depth 12-20 with shadowing, fields and labels named like 2/3-letter keywords (do if in for int let new try var), adjacent unary/binary minus and plus, string literals with runs of spaces, comment-like text, quotes, backslashes, the hint byte. distinct_nontrivial = distinct (workload kind, trace length, outcome) classes",
		nil, []string{"reference toolchain go1.23.5"})
}
