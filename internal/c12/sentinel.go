package c12

import (
	"fmt"
	"os"
	"path/filepath"
	"sort"
	"strings"

	"verif/internal/core"
)

// Sentinels are fixed regression inputs under /verif/sentinels/C12/testdata/<name>/ with the layout of a
// replay bundle: overlay/*.go, original/*.go, expected/<same file names>.go, optional IMPORTPATH.
// The expected files spell out the merged package the documentation promises; every run checks
// them with the same machinery as the generated pairs.

func goFilesIn(dir string) ([]string, map[string]string) {
	texts := map[string]string{}
	ents, _ := os.ReadDir(dir)
	var names []string
	for _, e := range ents {
		if strings.HasSuffix(e.Name(), ".go") {
			b, err := os.ReadFile(filepath.Join(dir, e.Name()))
			if err == nil {
				names = append(names, e.Name())
				texts[e.Name()] = string(b)
			}
		}
	}
	sort.Strings(names)
	return names, texts
}

func runSentinels(c *core.Ctx) (ran int) {
	root := filepath.Join(c.Verif, "sentinels", "C12", "testdata")
	dirs, _ := os.ReadDir(root)
	for _, d := range dirs {
		dir := filepath.Join(root, d.Name())
		if _, err := os.Stat(filepath.Join(dir, "original")); err != nil || !d.IsDir() {
			continue
		}
		importPath := "verif/gen/p"
		if b, err := os.ReadFile(filepath.Join(dir, "IMPORTPATH")); err == nil {
			importPath = strings.TrimSpace(string(b))
		}
		var names [2][]string
		var texts [2]map[string]string
		names[sideOver], texts[sideOver] = goFilesIn(filepath.Join(dir, "overlay"))
		names[sideOrig], texts[sideOrig] = goFilesIn(filepath.Join(dir, "original"))
		_, expTexts := goFilesIn(filepath.Join(dir, "expected"))
		var exp []ExpFile
		res := PairResult{Files: map[string]string{}}
		for _, side := range []int{sideOver, sideOrig} {
			for _, n := range names[side] {
				exp = append(exp, ExpFile{Name: n, Text: expTexts[n], ImportsChecked: true})
				res.Files[[]string{"testdata/original/", "testdata/overlay/"}[side]+n] = texts[side][n]
				res.Files["testdata/expected/"+n] = expTexts[n]
			}
		}
		checkTexts(importPath, names, texts, exp, &res)
		if res.Mishap != "" {
			c.Inconclusive("sentinel-malformed")
			fmt.Printf("sentinel %s is malformed: %s\n", d.Name(), res.Mishap)
			continue
		}
		ran++
		seen := map[string]bool{}
		for _, s := range res.Symptoms {
			if seen[s.Class] {
				continue
			}
			seen[s.Class] = true
			var what strings.Builder
			fmt.Fprintf(&what, "sentinel %s (sentinels/C12/testdata/%s): ", d.Name(), d.Name())
			for _, x := range res.Symptoms {
				fmt.Fprintf(&what, "[%s] %s\n", x.Class, x.Detail)
			}
			c.Violate("sentinel."+d.Name()+"."+s.Class, what.String(), res.Files)
		}
	}
	c.Count("sentinels_checked", ran)
	return ran
}
