package c12

import (
	"bytes"
	"encoding/json"
	"fmt"
	"go/ast"
	gobuild "go/build"
	"go/parser"
	"go/printer"
	"go/token"
	"io/fs"
	"net/http"
	"os"
	"path/filepath"
	"sort"
	"strings"
	"time"

	"github.com/gopherjs/gopherjs/build"
	"github.com/gopherjs/gopherjs/compiler/gopherjspkg"

	"verif/internal/core"
)

// StdPkg is the outcome of the real-pipeline cross-check of one package variant.
type StdPkg struct {
	Path     string `json:"path"`
	Variant  string `json:"variant"` // pkg | test | xtest
	Status   string `json:"status"`  // compared | missing-in-goroot | load-failed | no-overlay-files | selection-differs
	Detail   string `json:"detail,omitempty"`
	Overlay  int    `json:"overlay_files"`
	Original int    `json:"original_files"`

	OrigEntities int `json:"original_entities"`
	Replaced     int `json:"replaced_or_purged"`
	Renamed      int `json:"kept_renamed"`
	MergedEnts   int `json:"merged_entities"`

	ReplicaDiff      []string          `json:"replica_diff,omitempty"` // files whose printed form differs real vs replica
	EvalDiff         []string          `json:"eval_diff,omitempty"`
	Panic            string            `json:"panic,omitempty"`
	Hazards          []IotaHazard      `json:"hazards,omitempty"`
	HazardCandidates int               `json:"hazard_candidates"`
	Bundle           map[string]string `json:"bundle,omitempty"`
}

func stdRepo() string {
	if v := os.Getenv("VERIF_REPO"); v != "" {
		return v
	}
	return "/repo"
}

// overlayPackages lists the import paths that have Go overlay files.
func overlayPackages(repo string) []string {
	root := filepath.Join(repo, "compiler", "natives", "src")
	seen := map[string]bool{}
	filepath.WalkDir(root, func(p string, d fs.DirEntry, err error) error {
		if err == nil && !d.IsDir() && strings.HasSuffix(p, ".go") {
			rel, _ := filepath.Rel(root, filepath.Dir(p))
			seen[filepath.ToSlash(rel)] = true
		}
		return nil
	})
	var out []string
	for k := range seen {
		out = append(out, k)
	}
	sort.Strings(out)
	return out
}

// overlaySelection picks the overlay files of a package independently of package build:
// go/build over the real directory with the environment GopherJS documents for std packages.
func overlaySelection(repo, path string) (goFiles, testFiles, xtestFiles []string) {
	bc := gobuild.Default
	bc.GOOS, bc.GOARCH, bc.CgoEnabled = "js", "wasm", false
	bc.BuildTags = []string{"netgo", "purego", "math_big_pure_go", "gopherjs"}
	bc.ReleaseTags = nil
	for i := 1; i <= 20; i++ {
		bc.ReleaseTags = append(bc.ReleaseTags, fmt.Sprintf("go1.%d", i))
	}
	p, _ := bc.ImportDir(filepath.Join(repo, "compiler", "natives", "src", filepath.FromSlash(path)), 0)
	if p == nil {
		return
	}
	return p.GoFiles, p.TestGoFiles, p.XTestGoFiles
}

func printFile(fset *token.FileSet, f *ast.File) string {
	var b bytes.Buffer
	printer.Fprint(&b, fset, f)
	return b.String()
}

func baseName(fset *token.FileSet, f *ast.File) string {
	return filepath.Base(fset.Position(f.Package).Filename)
}

func parseFiles(fset *token.FileSet, dir string, names []string, as func(string) string) ([]*ast.File, error) {
	var out []*ast.File
	for _, n := range names {
		src, err := os.ReadFile(filepath.Join(dir, n))
		if err != nil {
			return nil, err
		}
		f, err := parser.ParseFile(fset, as(n), src, parser.ParseComments)
		if err != nil {
			return nil, err
		}
		out = append(out, f)
	}
	return out, nil
}

// crossCheck compares the real pipeline with replica and evaluator for one package variant.
func crossCheck(repo string, s *build.Session, pkg *build.PackageData, variant string, ovNames []string) (res StdPkg) {
	res = StdPkg{Path: pkg.ImportPath, Variant: variant, Overlay: len(ovNames), Original: len(pkg.GoFiles)}
	defer func() {
		if r := recover(); r != nil {
			res.Status, res.Panic = "compared", fmt.Sprint(r)
		}
	}()
	origNames := append([]string{}, pkg.GoFiles...)
	srcs, err := s.LoadPackages(pkg)
	if err != nil {
		res.Status, res.Detail = "load-failed", err.Error()
		return
	}
	real := srcs.Files
	ip := pkg.ImportPath
	if variant == "xtest" {
		ip = strings.TrimSuffix(ip, "_test")
	}
	ovDir := filepath.Join(repo, "compiler", "natives", "src", filepath.FromSlash(ip))
	as := func(n string) string { return filepath.Join(pkg.Dir, "gopherjs__"+n) }
	asOrig := func(n string) string { return filepath.Join(pkg.Dir, n) }

	// did the real pipeline pick the same overlay files?
	var realOv []string
	for _, f := range real {
		if b := baseName(srcs.FileSet, f); strings.HasPrefix(b, "gopherjs__") {
			realOv = append(realOv, strings.TrimPrefix(b, "gopherjs__"))
		}
	}
	if !sameStrings(realOv, ovNames) {
		res.Status, res.Detail = "selection-differs", fmt.Sprintf("pipeline used overlay files %v, go/build selects %v", realOv, ovNames)
		return
	}

	fset := token.NewFileSet()
	ov, err1 := parseFiles(fset, ovDir, ovNames, as)
	or, err2 := parseFiles(fset, pkg.Dir, origNames, asOrig)
	if err1 != nil || err2 != nil {
		res.Status, res.Detail = "load-failed", fmt.Sprint("independent parse failed: ", err1, err2)
		return
	}
	replica := build.VerifAugment(pkg.ImportPath, ov, or)
	if len(real) == len(replica)+1 {
		real = real[:len(replica)] // file synthesised by go:embed support
	}
	res.Status = "compared"
	res.Bundle = map[string]string{}
	if len(real) != len(replica) {
		res.ReplicaDiff = append(res.ReplicaDiff, fmt.Sprintf("real pipeline returns %d files, replica %d", len(real), len(replica)))
		return
	}
	for i := range real {
		a, b := printFile(srcs.FileSet, real[i]), printFile(fset, replica[i])
		if a != b {
			n := baseName(fset, replica[i])
			res.ReplicaDiff = append(res.ReplicaDiff, n)
			res.Bundle["testdata/real/"+n], res.Bundle["testdata/replica/"+n] = a, b
		}
	}

	// independent evaluator over freshly parsed inputs
	efset := token.NewFileSet()
	eov, _ := parseFiles(efset, ovDir, ovNames, as)
	eor, _ := parseFiles(efset, pkg.Dir, origNames, asOrig)
	for _, f := range eor {
		res.OrigEntities += len(entsOf(f))
	}
	pred, hazards := evalMerge(efset, eov, eor)
	for _, h := range hazards {
		// a candidate only: it is a refutation if the constant's position in the real result changed
		before := constPosition(efset, eor[h.FileIdx], h.Victim)
		after := constPosition(srcs.FileSet, real[len(eov)+h.FileIdx], h.Victim)
		res.HazardCandidates++
		if before != after {
			h.Removed += fmt.Sprintf(" (%s: %q before the merge, %q after)", h.Victim, before, after)
			res.Hazards = append(res.Hazards, h)
		}
	}
	for i := range real {
		got := reduceFile(srcs.FileSet, "", real[i], nil)
		res.MergedEnts += len(got.Ents)
		a, b := tupleStrings(pred[i]), tupleStrings(got.Ents)
		if i >= len(eov) {
			res.Replaced += len(entsOf(eor[i-len(eov)])) - len(pred[i])
			for _, t := range pred[i] {
				if strings.Contains(t.Key, keepPrefix) {
					res.Renamed++
				}
			}
		}
		if !sameStrings(a, b) {
			n := baseName(srcs.FileSet, real[i])
			missing, extra := diffStrings(a, b)
			kind := "multiset"
			if len(missing) == 0 && len(extra) == 0 {
				kind = "order"
			}
			res.EvalDiff = append(res.EvalDiff, fmt.Sprintf("%s (%s): predicted but absent: %v; present but not predicted: %v", n, kind, clip(missing), clip(extra)))
			res.Bundle["testdata/merged/"+n] = printFile(srcs.FileSet, real[i])
		}
	}
	if len(res.ReplicaDiff) == 0 && len(res.EvalDiff) == 0 {
		res.Bundle = nil
	}
	return
}

func clip(s []string) []string {
	out := []string{}
	for i, x := range s {
		if i == 6 {
			out = append(out, fmt.Sprintf("… %d more", len(s)-6))
			break
		}
		if len(x) > 300 {
			x = x[:300] + "…"
		}
		out = append(out, x)
	}
	return out
}

// StdMain is the child sub-command `vp c12-std <out.json> [tests]`: it needs the process-wide
// gopherjspkg registration and its own cwd, and a compiler crash must not take the monitor down.
func StdMain(args []string) int {
	repo := stdRepo()
	gopherjspkg.RegisterFS(http.FS(os.DirFS(repo)))
	withTests := len(args) > 1 && args[1] == "tests"
	var out []StdPkg
	newSession := func() (*build.Session, build.XContext, error) {
		s, err := build.NewSession(&build.Options{NoCache: true})
		if err != nil {
			return nil, nil, err
		}
		return s, build.NewBuildContext(s.InstallSuffix(), nil), nil
	}
	s, xctx, err := newSession()
	if err != nil {
		fmt.Fprintln(os.Stderr, err)
		return 1
	}
	for _, path := range overlayPackages(repo) {
		goFiles, testFiles, xtestFiles := overlaySelection(repo, path)
		pkg, err := xctx.Import(path, "", 0)
		if err != nil {
			out = append(out, StdPkg{Path: path, Variant: "pkg", Status: "missing-in-goroot", Detail: err.Error()})
			continue
		}
		if len(goFiles) > 0 {
			out = append(out, crossCheck(repo, s, pkg, "pkg", goFiles))
		} else {
			out = append(out, StdPkg{Path: path, Variant: "pkg", Status: "no-overlay-files"})
		}
		if !withTests {
			continue
		}
		if len(testFiles) > 0 && len(pkg.TestGoFiles) > 0 {
			ts, txctx, err := newSession()
			if err == nil {
				tpkg, err := txctx.Import(path, "", 0)
				if err == nil {
					out = append(out, crossCheck(repo, ts, tpkg.TestPackage(), "test", append(append([]string{}, goFiles...), testFiles...)))
				}
			}
		}
		if len(xtestFiles) > 0 && len(pkg.XTestGoFiles) > 0 {
			ts, txctx, err := newSession()
			if err == nil {
				tpkg, err := txctx.Import(path, "", 0)
				if err == nil {
					out = append(out, crossCheck(repo, ts, tpkg.XTestPackage(), "xtest", xtestFiles))
				}
			}
		}
	}
	b, _ := json.MarshalIndent(out, "", " ")
	if err := os.WriteFile(args[0], b, 0o644); err != nil {
		fmt.Fprintln(os.Stderr, err)
		return 1
	}
	return 0
}

// StdSummary goes into the evidence file.
type StdSummary struct {
	OverlayDirs          int               `json:"overlay_dirs"`
	Compared             int               `json:"package_variants_compared"`
	ComparedPaths        []string          `json:"compared"`
	Missing              []string          `json:"missing_in_goroot"`
	Inconclusive         map[string]string `json:"inconclusive"`
	OrigEntities         int               `json:"original_entities"`
	Replaced             int               `json:"original_entities_replaced_or_purged"`
	Renamed              int               `json:"original_entities_kept_renamed"`
	MergedEntities       int               `json:"merged_entities_compared"`
	FilesCompared        int               `json:"files_compared"`
	ConstGroupCandidates int               `json:"const_group_override_candidates"`
}

func runStd(c *core.Ctx) StdSummary {
	sum := StdSummary{Inconclusive: map[string]string{}}
	dir := c.Dir("std")
	out := filepath.Join(dir, "std.json")
	args := []string{"c12-std", out}
	if !c.Quick() {
		args = append(args, "tests")
	}
	r := core.Exec(dir, core.BaseEnv("VERIF_REPO="+c.Repo), 20*time.Minute, "", c.Self, args...)
	var pkgs []StdPkg
	b, err := os.ReadFile(out)
	if err == nil {
		err = json.Unmarshal(b, &pkgs)
	}
	if r.TimedOut || err != nil {
		c.Inconclusive("std-child-failed")
		fmt.Println("c12-std child failed:", r.Exit, err, r.Stderr)
		return sum
	}
	seen := map[string]bool{}
	for _, p := range pkgs {
		id := p.Path + "[" + p.Variant + "]"
		if !seen[p.Path] {
			seen[p.Path] = true
			sum.OverlayDirs++
		}
		switch p.Status {
		case "missing-in-goroot":
			sum.Missing = append(sum.Missing, p.Path)
			continue
		case "no-overlay-files":
			continue
		case "compared":
		default:
			sum.Inconclusive[id] = p.Status + ": " + p.Detail
			c.Inconclusive("std-" + p.Status)
			continue
		}
		sum.Compared++
		sum.ComparedPaths = append(sum.ComparedPaths, id)
		sum.OrigEntities += p.OrigEntities
		sum.Replaced += p.Replaced
		sum.Renamed += p.Renamed
		sum.MergedEntities += p.MergedEnts
		sum.FilesCompared += p.Overlay + p.Original
		sum.ConstGroupCandidates += p.HazardCandidates
		key := strings.ReplaceAll(p.Path, "/", "_") + "." + p.Variant
		if p.Panic != "" {
			c.Violate("std.panic."+key, fmt.Sprintf("std package %s: augmentation or comparison panicked: %s", id, p.Panic), nil)
		}
		if len(p.ReplicaDiff) > 0 {
			c.Violate("std.replica."+key, fmt.Sprintf("std package %s: real pipeline (Session.LoadPackages) and hook replica (VerifAugment) disagree on %v", id, p.ReplicaDiff), p.Bundle)
		}
		if len(p.EvalDiff) > 0 {
			c.Violate("std.rules."+key, fmt.Sprintf("std package %s: merged package is not what the documented rules predict:\n%s", id, strings.Join(p.EvalDiff, "\n")), p.Bundle)
		}
		for _, h := range p.Hazards {
			c.Violate("std.constgroup."+key+"."+h.Victim, fmt.Sprintf("std package %s: %s: overriding constant %s removes its spec from a constant group, which changes or breaks the value of the untouched constant %s (iota / implicit repetition)", id, h.File, h.Removed, h.Victim), nil)
		}
	}
	sort.Strings(sum.ComparedPaths)
	c.Count("std_package_variants_compared", sum.Compared)
	c.Count("std_merged_entities_compared", sum.MergedEntities)
	return sum
}

// AugmentMain is the replay helper `vp c12-augment <importpath> <overlay-dir> <original-dir>`:
// prints what the real augmentation functions make of the files of the two directories.
func AugmentMain(args []string) int {
	if len(args) != 3 {
		fmt.Fprintln(os.Stderr, "usage: vp c12-augment <importpath> <overlay-dir> <original-dir>")
		return 2
	}
	fset := token.NewFileSet()
	load := func(dir string) []*ast.File {
		ents, _ := os.ReadDir(dir)
		var names []string
		for _, e := range ents {
			if strings.HasSuffix(e.Name(), ".go") {
				names = append(names, e.Name())
			}
		}
		// the helper file keeps the position the generator gave it only by name order; good enough for replay
		fs, err := parseFiles(fset, dir, names, func(n string) string { return filepath.Join(dir, n) })
		if err != nil {
			fmt.Fprintln(os.Stderr, err)
			os.Exit(2)
		}
		return fs
	}
	for _, f := range build.VerifAugment(args[0], load(args[1]), load(args[2])) {
		fmt.Printf("// ---------------- %s\n%s\n", fset.Position(f.Package).Filename, printFile(fset, f))
	}
	return 0
}

// ShowMain is the debugging helper `vp c12-show <workload> <index>` (seed from VERIF_SEED).
func ShowMain(args []string) int {
	c := &core.Ctx{ID: "C12", Seed: 1}
	if v := os.Getenv("VERIF_SEED"); v != "" {
		fmt.Sscan(v, &c.Seed)
	}
	idx := 0
	fmt.Sscan(args[1], &idx)
	m := pairModel(c, args[0], idx, nil)
	r := CheckPair(m)
	var names []string
	for n := range r.Files {
		names = append(names, n)
	}
	sort.Strings(names)
	for _, n := range names {
		fmt.Printf("==================== %s\n%s\n", n, r.Files[n])
	}
	fmt.Println("mishap:", r.Mishap)
	for _, s := range r.Symptoms {
		fmt.Printf("SYMPTOM [%s] %s\n", s.Class, s.Detail)
	}
	return 0
}
