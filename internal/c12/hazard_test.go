package c12

import (
	"go/ast"
	"go/parser"
	"go/token"
	"testing"

	"github.com/gopherjs/gopherjs/build"
)

// The std cross-check has no overlay that overrides a constant of a positional group today, so the
// candidate detector and the position comparison are exercised here on the sentinel shape.
func TestConstGroupHazard(t *testing.T) {
	const orig = "package p\nconst (\n\tI0 = iota + 100\n\tI1\n\tI2\n)\nconst (\n\tA = \"a\"\n\tB = \"b\"\n\tC\n)\nconst (\n\tX = 1\n\tY = 2\n)\n"
	const over = "package p\nconst I1 = 7\nconst B = 8\nconst X = 9\n"
	fset := token.NewFileSet()
	p := func(n, s string) *ast.File {
		f, err := parser.ParseFile(fset, n, s, parser.ParseComments)
		if err != nil {
			t.Fatal(err)
		}
		return f
	}
	_, hz := evalMerge(fset, []*ast.File{p("x.go", over)}, []*ast.File{p("a.go", orig)})
	if len(hz) != 2 || hz[0].Victim != "I2" || hz[1].Victim != "C" || hz[0].FileIdx != 0 {
		t.Fatalf("hazards: %+v", hz)
	}
	o := p("a.go", orig)
	before := []string{constPosition(fset, o, "I2"), constPosition(fset, o, "C"), constPosition(fset, o, "Y")}
	merged := build.VerifAugment("p", []*ast.File{p("x.go", over)}, []*ast.File{o})
	after := []string{constPosition(fset, merged[1], "I2"), constPosition(fset, merged[1], "C"), constPosition(fset, merged[1], "Y")}
	t.Logf("before %q after %q", before, after)
	if before[0] == "" || before[1] == "" {
		t.Fatal("positions not found")
	}
}
