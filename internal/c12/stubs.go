package c12

import (
	"fmt"
	"go/ast"
	"go/parser"
	"go/token"
	"go/types"
	"strings"
)

// Stub importer: the generated packages import a handful of "standard" packages whose
// contents are irrelevant; each stub exports one constant, one string constant, two functions
// and a type, all prefixed with the capitalised package name so that dot imports never clash.

type stubPkg struct {
	path, name string
	extra      string
}

var stubPkgs = []stubPkg{
	{"math", "math", ""},
	{"strconv", "strconv", ""},
	{"errors", "errors", ""},
	{"sort", "sort", ""},
	{"unicode/utf8", "utf8", ""},
	{"math/bits", "bits", ""},
	{"sync", "sync", "type Mutex struct{}\n"},
	{"embed", "embed", "type FS struct{}\n"},
}

const nosyncPath = "github.com/gopherjs/gopherjs/nosync"

func capName(n string) string { return strings.ToUpper(n[:1]) + n[1:] }

func stubSource(name, prefix, extra string) string {
	// Besides the plain members (constant, string constant, two functions, a type) every stub has
	// what the chained and nested reference forms of uses.go need: a struct type with fields and
	// methods on both receiver kinds, a constructor, a variable, an array, an interface, a generic
	// type and a generic function.
	return strings.ReplaceAll(`package `+name+`

const @C = 1
const @K = ""
func @F() int { return 0 }
func @S() string { return "" }
type @T struct {
	F    int
	S    string
	A    [2]int
	Next *@T
}
func (@T) M() int { return 0 }
func (@T) Str() string { return "" }
func (*@T) PM() int { return 0 }
func (*@T) Len() int { return 0 }
func @New() *@T { return &@T{} }
var @V @T
var @Arr [2]@T
type @I interface{ M() int }
type @G[X any] struct{ V X }
func (@G[X]) Get() (x X) { return }
func @GF[X any](x X) X { return x }
`, "@", prefix) + extra
}

type stubImporter map[string]*types.Package

func (s stubImporter) Import(path string) (*types.Package, error) {
	if path == "unsafe" {
		return types.Unsafe, nil
	}
	if p, ok := s[path]; ok {
		return p, nil
	}
	return nil, fmt.Errorf("stub importer: unknown package %q", path)
}

func newStubImporter() stubImporter {
	out := stubImporter{}
	add := func(path, name, prefix, extra string) {
		fset := token.NewFileSet()
		f, err := parser.ParseFile(fset, name+".go", stubSource(name, prefix, extra), 0)
		if err != nil {
			panic(err)
		}
		pkg, err := (&types.Config{}).Check(path, fset, []*ast.File{f}, nil)
		if err != nil {
			panic(err)
		}
		// force lazy state now; the packages are shared read-only between goroutines
		for _, n := range pkg.Scope().Names() {
			if tn, ok := pkg.Scope().Lookup(n).(*types.TypeName); ok {
				tn.Type().Underlying()
				types.NewMethodSet(tn.Type())
			}
		}
		out[path] = pkg
	}
	for _, sp := range stubPkgs {
		add(sp.path, sp.name, capName(sp.name), sp.extra)
	}
	add(nosyncPath, "nosync", "Sync", "type Mutex struct{}\n")
	return out
}
