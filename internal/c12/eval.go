package c12

import (
	"fmt"
	"go/ast"
	"go/token"
	"regexp"
	"strings"
)

// Independent evaluator of the merge rules of doc/pargma.md (plus the plain "an overridden
// name is replaced, everything else is untouched" rule of the property statement) over two
// parsed, unmodified inputs. It never rewrites an AST: it enumerates the entities of both
// sides and decides for each whether and under which name/signature it is part of the result.

var directiveRe = regexp.MustCompile(`^/[/*]gopherjs:([\w-]+)`)

func hasGopherJSDirective(action string, groups ...*ast.CommentGroup) bool {
	for _, g := range groups {
		if g == nil {
			continue
		}
		for _, c := range g.List {
			if m := directiveRe.FindStringSubmatch(c.Text); m != nil && m[1] == action {
				return true
			}
		}
	}
	return false
}

type overrideRule struct {
	keep     bool
	purgeTyp bool
	sig      *ast.FuncDecl
}

// IotaHazard describes a constant group of an original file from which a spec is removed although
// a later constant of the group depends on its position (iota or implicit repetition).
type IotaHazard struct {
	FileIdx int    `json:"-"` // index into the original files
	File    string `json:"file"`
	Removed string `json:"removed"`
	Victim  string `json:"victim"`
}

// evalMerge predicts the per-file entity tuples of the merged package.
// overlay/original must be freshly parsed (the function does not modify them).
func evalMerge(fset *token.FileSet, overlay, original []*ast.File) (files [][]Tuple, hazards []IotaHazard) {
	rules := map[string]overrideRule{}
	for _, f := range overlay {
		var out []Tuple
		for _, e := range entsOf(f) {
			switch {
			case e.fd != nil:
				r := overrideRule{keep: hasGopherJSDirective("keep-original", e.fd.Doc)}
				gone := hasGopherJSDirective("purge", e.fd.Doc)
				if hasGopherJSDirective("override-signature", e.fd.Doc) {
					r.sig = e.fd
					gone = true
				}
				if e.key != "init" && e.key != "_" {
					rules[e.key] = r
				}
				if !gone {
					out = append(out, tupleOf(fset, e))
				}
			case e.ts != nil:
				purge := hasGopherJSDirective("purge", e.gd.Doc, e.ts.Doc)
				rules[e.key] = overrideRule{purgeTyp: purge}
				if !purge {
					out = append(out, tupleOf(fset, e))
				}
			case e.vs != nil:
				purge := hasGopherJSDirective("purge", e.gd.Doc, e.vs.Doc)
				if e.key != "_" {
					rules[e.key] = overrideRule{}
				}
				if !purge {
					out = append(out, tupleOf(fset, e))
				}
			}
		}
		files = append(files, out)
	}
	for _, f := range original {
		var out []Tuple
		for _, e := range entsOf(f) {
			r, overridden := rules[e.key]
			switch {
			case e.fd != nil && overridden:
				if !r.keep && r.sig == nil {
					continue
				}
				t := tupleOf(fset, e)
				if r.keep {
					t.Key = strings.TrimSuffix(t.Key, e.fd.Name.Name) + "_gopherjs_original_" + e.fd.Name.Name
				}
				if r.sig != nil {
					t.Sig = funcSig(fset, r.sig.Recv, r.sig.Type)
				}
				out = append(out, t)
			case e.fd != nil && e.kind == "method" && rules[recvBase(e.fd)].purgeTyp:
				continue
			case overridden:
				continue
			default:
				out = append(out, tupleOf(fset, e))
			}
		}
		files = append(files, out)
		for _, h := range iotaHazards(fset, f, rules) {
			h.FileIdx = len(files) - 1 - len(overlay)
			hazards = append(hazards, h)
		}
	}
	return
}

// iotaHazards finds parenthesised constant groups in which the removal of overridden specs
// changes (or breaks) the value of a surviving constant.
func iotaHazards(fset *token.FileSet, f *ast.File, rules map[string]overrideRule) []IotaHazard {
	var out []IotaHazard
	for _, d := range f.Decls {
		gd, ok := d.(*ast.GenDecl)
		if !ok || gd.Tok != token.CONST || !gd.Lparen.IsValid() {
			continue
		}
		removed := ""
		var lastValues []ast.Expr // effective expression list (implicit repetition)
		lastRemoved := false
		for _, s := range gd.Specs {
			vs := s.(*ast.ValueSpec)
			all := true
			for _, n := range vs.Names {
				if _, ok := rules[n.Name]; !ok || n.Name == "_" {
					all = false
				}
			}
			inherited := len(vs.Values) == 0
			if !inherited {
				lastValues = vs.Values
				lastRemoved = false
			}
			if all {
				// the whole spec disappears
				if removed == "" {
					removed = vs.Names[0].Name
				}
				if !inherited {
					lastRemoved = true
				}
				continue
			}
			usesIota := false
			for _, v := range lastValues {
				ast.Inspect(v, func(n ast.Node) bool {
					if id, ok := n.(*ast.Ident); ok && id.Name == "iota" {
						usesIota = true
					}
					return true
				})
			}
			if removed != "" && (usesIota || (inherited && lastRemoved)) {
				out = append(out, IotaHazard{File: fset.Position(f.Pos()).Filename, Removed: removed, Victim: vs.Names[0].Name})
				break
			}
		}
	}
	return out
}

// constPosition describes what determines the value of constant `name` inside a parenthesised
// group: the index of its spec (iota), its index in the spec and the effective expression list.
func constPosition(fset *token.FileSet, f *ast.File, name string) string {
	for _, d := range f.Decls {
		gd, ok := d.(*ast.GenDecl)
		if !ok || gd.Tok != token.CONST || !gd.Lparen.IsValid() {
			continue
		}
		for i, s := range gd.Specs {
			vs, ok := s.(*ast.ValueSpec)
			if !ok {
				continue
			}
			for k, n := range vs.Names {
				if n.Name != name {
					continue
				}
				for j := i; j >= 0; j-- {
					if e, ok := gd.Specs[j].(*ast.ValueSpec); ok && len(e.Values) > 0 {
						out := fmt.Sprintf("spec %d name %d:", i, k)
						if e.Type != nil {
							out += " " + printNode(fset, e.Type)
						}
						for _, v := range e.Values {
							out += " " + printNode(fset, v)
						}
						return out
					}
				}
				return fmt.Sprintf("spec %d name %d: <no expression>", i, k)
			}
		}
	}
	return ""
}
