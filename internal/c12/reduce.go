package c12

import (
	"bytes"
	"fmt"
	"go/ast"
	"go/constant"
	"go/printer"
	"go/token"
	"go/types"
	"sort"
	"strconv"
	"strings"
)

// Tuple is what one top-level entity of a file is reduced to.
type Tuple struct {
	Kind string `json:"kind"`           // func | method | type | var | const
	Key  string `json:"key"`            // Name or Recv.Name
	Body string `json:"body,omitempty"` // printed body / value / type expression, whitespace removed
	Sig  string `json:"sig,omitempty"`  // printed receiver+signature / type parameters / declared type
	Dirs string `json:"dirs,omitempty"` // //go: directive lines of the doc comment
	Val  string `json:"val,omitempty"`  // constant value (only when the package was type-checked)
}

func (t Tuple) String() string {
	s := t.Kind + " " + t.Key + " sig=" + strconv.Quote(t.Sig) + " body=" + strconv.Quote(t.Body)
	if t.Dirs != "" {
		s += " dirs=" + strconv.Quote(t.Dirs)
	}
	if t.Val != "" {
		s += " val=" + t.Val
	}
	return s
}

// FileRed is the reduction of one file: ordered entities and both views of the import list.
type FileRed struct {
	Name        string
	Ents        []Tuple
	DeclImports []string // import specs found in the declarations (what go/types sees)
	ListImports []string // file.Imports (what astutil.ImportsUnsafe & co. see)
	ListDirs    []string // //go: directive lines in file.Comments (what linkname/embed processing sees)
}

// entRef addresses one top-level entity inside an (unmodified or merged) AST.
type entRef struct {
	kind, key string
	fd        *ast.FuncDecl
	gd        *ast.GenDecl
	ts        *ast.TypeSpec
	vs        *ast.ValueSpec
	idx       int
	group     bool // gd as a whole: a positional constant group without any named constant
}

// recvBase returns the base type name of a method receiver.
func recvBase(fd *ast.FuncDecl) string {
	if fd.Recv == nil || len(fd.Recv.List) == 0 {
		return ""
	}
	e := fd.Recv.List[0].Type
	for {
		switch x := e.(type) {
		case *ast.StarExpr:
			e = x.X
		case *ast.ParenExpr:
			e = x.X
		case *ast.IndexExpr:
			e = x.X
		case *ast.IndexListExpr:
			e = x.X
		case *ast.Ident:
			return x.Name
		default:
			return "?"
		}
	}
}

// positionalConstGroup reports whether the value of a constant of the group depends on the position
// of its spec: a parenthesised constant declaration that uses iota or the implicit repetition of
// the previous expression list (Go specification, "Constant declarations" and "Iota").
func positionalConstGroup(d *ast.GenDecl) bool {
	if d.Tok != token.CONST || !d.Lparen.IsValid() {
		return false
	}
	found := false
	for _, s := range d.Specs {
		vs, ok := s.(*ast.ValueSpec)
		if !ok {
			continue
		}
		if len(vs.Values) == 0 {
			return true
		}
		for _, v := range vs.Values {
			ast.Inspect(v, func(n ast.Node) bool {
				if id, ok := n.(*ast.Ident); ok && id.Name == "iota" {
					found = true
				}
				return true
			})
		}
	}
	return found
}

// entsOf enumerates the top-level entities of a file in source order.
//
// The blank identifier declares nothing, but a spec is more than its names:
//   - with as many values as names (`var _, a = f(), g()`, `const _ = x`) every name owns a value,
//     so a blank name with its value is an entity of its own (the value is evaluated / checked);
//   - in a single-value context (`var _, a = f2()`, `var _, a T`) blank names are placeholders that
//     belong to the named ones; a spec without any named one (`var _, _ = f2()`, `var _ T`) is one
//     entity (idx -1): it is evaluated for its effect and nothing can override it;
//   - in a positional constant group blank names are placeholders that keep the other constants
//     in position, they are not entities; a group without any named constant is one entity.
func entsOf(f *ast.File) []entRef {
	var out []entRef
	for _, d := range f.Decls {
		switch d := d.(type) {
		case *ast.FuncDecl:
			if rb := recvBase(d); rb != "" {
				out = append(out, entRef{kind: "method", key: rb + "." + d.Name.Name, fd: d})
			} else {
				out = append(out, entRef{kind: "func", key: d.Name.Name, fd: d})
			}
		case *ast.GenDecl:
			if d.Tok == token.IMPORT {
				continue
			}
			for _, s := range d.Specs {
				switch s := s.(type) {
				case *ast.TypeSpec:
					out = append(out, entRef{kind: "type", key: s.Name.Name, gd: d, ts: s})
				case *ast.ValueSpec:
					kind := "var"
					if d.Tok == token.CONST {
						kind = "const"
					}
					own := len(s.Values) == len(s.Names) && !positionalConstGroup(d)
					named := 0
					for i, n := range s.Names {
						if n.Name == "_" && !own {
							continue
						}
						named++
						out = append(out, entRef{kind: kind, key: n.Name, gd: d, vs: s, idx: i})
					}
					if named == 0 && !positionalConstGroup(d) {
						out = append(out, entRef{kind: kind, key: "_", gd: d, vs: s, idx: -1})
					}
				}
			}
			if positionalConstGroup(d) {
				named := false
				for _, s := range d.Specs {
					if vs, ok := s.(*ast.ValueSpec); ok {
						for _, n := range vs.Names {
							named = named || n.Name != "_"
						}
					}
				}
				if !named {
					out = append(out, entRef{kind: "const", key: "_", gd: d, idx: -1, group: true})
				}
			}
		}
	}
	return out
}

func squash(s string) string {
	return strings.Map(func(r rune) rune {
		if r == ' ' || r == '\t' || r == '\n' || r == '\r' {
			return -1
		}
		return r
	}, s)
}

func printNode(fset *token.FileSet, n any) string {
	var b bytes.Buffer
	if err := printer.Fprint(&b, fset, n); err != nil {
		panic(fmt.Sprintf("go/printer cannot print %T: %v", n, err))
	}
	return squash(b.String())
}

func goDirectives(groups ...*ast.CommentGroup) string {
	var out []string
	for _, g := range groups {
		if g == nil {
			continue
		}
		for _, c := range g.List {
			if strings.HasPrefix(c.Text, "//go:") {
				out = append(out, strings.TrimSpace(c.Text))
			}
		}
	}
	return strings.Join(out, "\n")
}

// fieldList renders a receiver or type parameter list (go/printer does not print a bare *ast.FieldList).
func fieldList(fset *token.FileSet, fl *ast.FieldList) string {
	if fl == nil {
		return ""
	}
	var parts []string
	for _, f := range fl.List {
		var names []string
		for _, n := range f.Names {
			names = append(names, n.Name)
		}
		parts = append(parts, strings.Join(names, ",")+" "+printNode(fset, f.Type))
	}
	return "(" + strings.Join(parts, ";") + ")"
}

// funcSig renders receiver and signature of a function declaration.
func funcSig(fset *token.FileSet, recv *ast.FieldList, ft *ast.FuncType) string {
	return fieldList(fset, recv) + "|" + printNode(fset, ft)
}

// tupleOf reduces one entity.
func tupleOf(fset *token.FileSet, e entRef) Tuple {
	t := Tuple{Kind: e.kind, Key: e.key}
	switch {
	case e.group:
		for _, s := range e.gd.Specs {
			if vs, ok := s.(*ast.ValueSpec); ok {
				t.Body += fmt.Sprintf("%d", len(vs.Names))
				if vs.Type != nil {
					t.Body += ":" + printNode(fset, vs.Type)
				}
				for _, v := range vs.Values {
					t.Body += "=" + printNode(fset, v)
				}
				t.Body += ";"
			}
		}
	case e.fd != nil:
		t.Sig = funcSig(fset, e.fd.Recv, e.fd.Type)
		if e.fd.Body != nil {
			t.Body = printNode(fset, e.fd.Body)
		}
		t.Dirs = goDirectives(e.fd.Doc)
	case e.ts != nil:
		t.Sig = fieldList(fset, e.ts.TypeParams)
		if e.ts.Assign.IsValid() {
			t.Sig += "="
		}
		t.Body = printNode(fset, e.ts.Type)
		t.Dirs = specDirs(e.gd, e.ts.Doc)
	case e.vs != nil:
		if e.vs.Type != nil {
			t.Sig = printNode(fset, e.vs.Type)
		}
		switch {
		case e.idx < 0:
			for _, v := range e.vs.Values {
				t.Body += printNode(fset, v) + ","
			}
			t.Body += fmt.Sprintf("#all%d", len(e.vs.Names))
		case len(e.vs.Values) == len(e.vs.Names):
			t.Body = printNode(fset, e.vs.Values[e.idx])
		case len(e.vs.Values) == 1:
			t.Body = printNode(fset, e.vs.Values[0]) + "#" + strconv.Itoa(e.idx)
		case len(e.vs.Values) != 0:
			t.Body = fmt.Sprintf("<%d names, %d values>", len(e.vs.Names), len(e.vs.Values))
		}
		t.Dirs = specDirs(e.gd, e.vs.Doc)
	}
	return t
}

func specDirs(gd *ast.GenDecl, doc *ast.CommentGroup) string {
	if gd != nil && !gd.Lparen.IsValid() {
		return goDirectives(gd.Doc, doc)
	}
	return goDirectives(doc)
}

func importString(s *ast.ImportSpec) string {
	if s == nil {
		return "<nil>"
	}
	if s.Name != nil {
		return s.Name.Name + " " + s.Path.Value
	}
	return s.Path.Value
}

// reduceFile reduces a file. info may be nil; when given, constants get their value.
func reduceFile(fset *token.FileSet, name string, f *ast.File, info *types.Info) FileRed {
	fr := FileRed{Name: name}
	for _, e := range entsOf(f) {
		t := tupleOf(fset, e)
		if info != nil && e.kind == "const" && e.idx >= 0 {
			if c, ok := info.Defs[e.vs.Names[e.idx]].(*types.Const); ok && c.Val().Kind() != constant.Unknown {
				t.Val = c.Val().ExactString()
			} else {
				t.Val = "?"
			}
		}
		fr.Ents = append(fr.Ents, t)
	}
	for _, d := range f.Decls {
		if gd, ok := d.(*ast.GenDecl); ok && gd.Tok == token.IMPORT {
			for _, s := range gd.Specs {
				is, _ := s.(*ast.ImportSpec)
				fr.DeclImports = append(fr.DeclImports, importString(is))
			}
		}
	}
	for _, s := range f.Imports {
		fr.ListImports = append(fr.ListImports, importString(s))
	}
	for _, cg := range f.Comments {
		for _, c := range cg.List {
			if strings.HasPrefix(c.Text, "//go:") {
				fr.ListDirs = append(fr.ListDirs, strings.TrimSpace(c.Text))
			}
		}
	}
	sort.Strings(fr.ListDirs)
	return fr
}

// multiset renders tuples as a sorted list of strings (order-insensitive comparison).
func multiset(ts []Tuple) []string {
	out := make([]string, len(ts))
	for i, t := range ts {
		out[i] = t.String()
	}
	sort.Strings(out)
	return out
}

// diffStrings lists the elements only in a and only in b (multiset semantics).
func diffStrings(a, b []string) (onlyA, onlyB []string) {
	cnt := map[string]int{}
	for _, s := range a {
		cnt[s]++
	}
	for _, s := range b {
		if cnt[s] > 0 {
			cnt[s]--
		} else {
			onlyB = append(onlyB, s)
		}
	}
	for _, s := range a {
		if cnt[s] > 0 {
			cnt[s]--
			onlyA = append(onlyA, s)
		}
	}
	return
}

func sameStrings(a, b []string) bool {
	if len(a) != len(b) {
		return false
	}
	for i := range a {
		if a[i] != b[i] {
			return false
		}
	}
	return true
}
