package c12

import (
	"fmt"
	"strings"
)

// The declarative model of one (original files, overlay files) pair. Source texts AND the
// expected merge result are both rendered from it; nothing in this file looks at an AST.

const (
	sideOrig = 0
	sideOver = 1
)

const (
	oOrig = 1
	oOver = 2
	oBoth = 3
)

const (
	dirNone  = ""
	dirKeep  = "keep-original"
	dirPurge = "purge"
	dirSig   = "override-signature"
)

const keepPrefix = "_gopherjs_original_" // doc/pargma.md, section gopherjs:keep-original

// packages whose original files get `sync` replaced by nosync (build/build.go, augmentOriginalImports)
var nosyncPackages = []string{"crypto/rand", "encoding/gob", "encoding/json", "expvar", "go/token", "log", "math/big", "math/rand", "regexp", "time"}

type Model struct {
	ImportPath string
	Workload   string
	Files      [2][]*MFile
	Ents       []*Ent
}

type MFile struct {
	Side        int
	Name        string
	Raw         string // fixed text (helper file); never touched by the merge
	Header      []string
	PkgDoc      []string
	Imports     []*MImport
	ImportBlock bool
	Decls       []*MDecl
	Floating    map[int][]string // free-floating comment before decl i (len(Decls) = end of file)
}

type MImport struct {
	Path  string
	Form  string // default | alias | blank | dot
	Alias string
}

func pathBase(p string) string {
	if i := strings.LastIndexByte(p, '/'); i >= 0 {
		return p[i+1:]
	}
	return p
}

// local is the identifier the file refers to the package by ("" for dot imports).
func (i *MImport) local() string {
	switch i.Form {
	case "alias":
		return i.Alias
	case "dot":
		return ""
	}
	return pathBase(i.Path)
}

func (i *MImport) qual() string {
	if l := i.local(); l != "" {
		return l + "."
	}
	return ""
}

func (i *MImport) prefix() string { return capName(pathBase(i.Path)) }

func (i *MImport) spec() string {
	switch i.Form {
	case "alias":
		return i.Alias + " " + fmt.Sprintf("%q", i.Path)
	case "blank":
		return "_ " + fmt.Sprintf("%q", i.Path)
	case "dot":
		return ". " + fmt.Sprintf("%q", i.Path)
	}
	return fmt.Sprintf("%q", i.Path)
}

type MDecl struct {
	Tok      string // func | var | const | type
	Paren    bool
	Doc      []string // plain comment lines
	Purge    bool     // //gopherjs:purge on the whole declaration (overlay side only)
	Specs    []*MSpec
	Iota     bool   // const group: first spec `= iota + 100`, the others repeat implicitly
	IotaType string // declared type of the first spec of an Iota group ("" = untyped)
}

type MSpec struct {
	Doc    []string
	Purge  bool   // //gopherjs:purge on this spec
	Call   bool   // single-call multi-value spec: var a, b = mk2("marker")
	NoVal  bool   // names sharing a type, no values: var a, b struct{ F int `marker` }
	Marker string // marker of a Call or NoVal spec
	Type   string // declared type of a multi-name or Call spec ("" = none)
	Sides  []*ESide
}

// single reports whether the names of the spec share one thing (a call or just a type): the
// single-value context of build.augmentOriginalFile, number of names != number of values.
func (sp *MSpec) single() bool { return sp.Call || sp.NoVal }

// allBlank reports whether the spec declares nothing but blank identifiers.
func (sp *MSpec) allBlank() bool {
	for _, s := range sp.Sides {
		if s.Ent.Name != "_" {
			return false
		}
	}
	return true
}

// anyBlank reports whether one of the names of the spec is the blank identifier.
func (sp *MSpec) anyBlank() bool {
	for _, s := range sp.Sides {
		if s.Ent.Name == "_" {
			return true
		}
	}
	return false
}

type Sig struct {
	TParams string   // "[T any]" or ""
	NT      int      // number of type parameters
	Params  []string // "a int"
	Results []string // "r0 int" (always named so that a bare return is valid)
}

func (s Sig) text(extra []string) string {
	ps := append(append([]string{}, extra...), s.Params...) // extras first: the last parameter may be variadic
	t := s.TParams + "(" + strings.Join(ps, ", ") + ")"
	if len(s.Results) > 0 {
		t += " (" + strings.Join(s.Results, ", ") + ")"
	}
	return t
}

type Recv struct {
	Ptr   bool
	Name  string // "r", "_" or ""
	TArgs []string
}

func (r *Recv) text(typ string) string {
	t := typ
	if len(r.TArgs) > 0 {
		t += "[" + strings.Join(r.TArgs, ", ") + "]"
	}
	if r.Ptr {
		t = "*" + t
	}
	if r.Name != "" {
		t = r.Name + " " + t
	}
	return "(" + t + ")"
}

// Use is one reference to an imported package from an entity.
type Use struct {
	Imp   *MImport
	Where string // body | sig | field | iface | value | const
	Form  int    // selects the syntactic shape of the reference (uses.go)
}

// ESide is one side (original or overlay) of an entity.
type ESide struct {
	Ent    *Ent
	Side   int
	Kind   string // func | method | type | var | const
	Marker string
	Doc    []string // plain doc comment lines of a func
	// func / method
	Recv     *Recv
	Sig      Sig
	NoBody   bool
	Linkname bool   // bodyless, //go:linkname in the doc
	KeepRef  string // statement referencing the kept original
	OneLine  bool
	// type
	TypeKind string // struct | iface | alias
	Arity    int
	TPNames  []string
	// value
	Typed   bool // declared type on a single-name spec
	NoValue bool // var without initial value (marker lives in the type)
	Embed   bool // //go:embed directive (var string, no value)
	Uses    []Use
	Shadow  []Shadow // locals named like an import (must not count as a use)

	file *MFile
	decl *MDecl
	spec *MSpec
}

type Ent struct {
	Kind   string // kind of the original side (or of the only side)
	Name   string
	Recv   string // receiver type name of a method
	Origin int
	Dir    string // directive on the overlay side
	S      [2]*ESide
}

func (e *Ent) key() string {
	if e.Recv != "" {
		return e.Recv + "." + e.Name
	}
	return e.Name
}

// ---------------------------------------------------------------- rendering of one entity side

func docLines(b *strings.Builder, indent string, lines []string) {
	for _, l := range lines {
		b.WriteString(indent + l + "\n")
	}
}

// funcText renders a function: name/receiver/signature may come from another side than the body
// (override-signature), which is why they are parameters.
func funcText(doc []string, recvTyp string, recv *Recv, name string, sig Sig, sigUses []Use, body *ESide) string {
	var b strings.Builder
	docLines(&b, "", doc)
	b.WriteString("func ")
	if recv != nil {
		b.WriteString(recv.text(recvTyp) + " ")
	}
	var extra []string
	for i, u := range sigUses {
		extra = append(extra, useText(u, fmt.Sprint(i)))
	}
	b.WriteString(name + sig.text(extra))
	if body == nil || body.NoBody {
		b.WriteString("\n")
		return b.String()
	}
	stmts := []string{fmt.Sprintf("_ = mk(%q)", body.Marker)}
	for i, u := range body.Uses {
		if u.Where == "body" {
			stmts = append(stmts, useText(u, fmt.Sprintf("b%d", i)))
		}
	}
	for _, s := range body.Shadow {
		stmts = append(stmts, shadowStmts(s)...)
	}
	if body.KeepRef != "" {
		stmts = append(stmts, body.KeepRef)
	}
	stmts = append(stmts, "return")
	if body.OneLine && len(stmts) <= 3 {
		b.WriteString(" { " + strings.Join(stmts, "; ") + " }\n")
	} else {
		b.WriteString(" {\n\t" + strings.Join(stmts, "\n\t") + "\n}\n")
	}
	return b.String()
}

func (es *ESide) sigUses() []Use {
	var out []Use
	for _, u := range es.Uses {
		if u.Where == "sig" {
			out = append(out, u)
		}
	}
	return out
}

func (es *ESide) funcDoc() []string {
	doc := append([]string{}, es.Doc...)
	if es.Side == sideOver && es.Ent.Dir != dirNone {
		doc = append(doc, "//gopherjs:"+es.Ent.Dir)
		if len(es.Doc) > 0 {
			doc = append(doc, "// (see above)")
		}
	}
	if es.Linkname {
		doc = append(doc, fmt.Sprintf("//go:linkname %s runtime.%s", es.Ent.Name, es.Marker))
	}
	return doc
}

func (es *ESide) ownFuncText() string {
	return funcText(es.funcDoc(), es.Ent.Recv, es.Recv, es.Ent.Name, es.Sig, es.sigUses(), es)
}

// typeSpecText renders `Name[tparams] <type>` (without the `type` keyword).
func (es *ESide) typeSpecText() string {
	name := es.Ent.Name
	tag := "`" + es.Marker + "`"
	switch es.TypeKind {
	case "int":
		return name + " int"
	case "iface":
		elems := []string{"M" + es.Marker + "()"}
		for i, u := range es.Uses {
			if u.Where == "iface" {
				elems = append(elems, useText(u, fmt.Sprint(i)))
			}
		}
		return fmt.Sprintf("%s interface{ %s }", name, strings.Join(elems, "; "))
	case "alias":
		fields := []string{"F int " + tag}
		for i, u := range es.Uses {
			if u.Where == "field" {
				fields = append(fields, useText(u, fmt.Sprint(i)))
			}
		}
		return fmt.Sprintf("%s = struct{ %s }", name, strings.Join(fields, "; "))
	}
	tp := ""
	fields := []string{"F int " + tag}
	if es.Arity > 0 {
		var ps []string
		cons := []string{"comparable", "any"}
		for i := 0; i < es.Arity; i++ {
			ps = append(ps, es.TPNames[i]+" "+cons[i])
			fields = append(fields, fmt.Sprintf("g%d %s", i, es.TPNames[i]))
		}
		tp = "[" + strings.Join(ps, ", ") + "]"
	}
	for i, u := range es.Uses {
		if u.Where == "field" {
			fields = append(fields, useText(u, fmt.Sprint(i)))
		}
	}
	return fmt.Sprintf("%s%s struct {\n\t\t%s\n\t}", name, tp, strings.Join(fields, "\n\t\t"))
}

// valueExpr renders the initial value of a var/const side (not for Call specs).
func (es *ESide) valueExpr() string {
	var v string
	if es.Kind == "const" {
		v = fmt.Sprintf("%q", es.Marker)
	} else {
		v = fmt.Sprintf("mk(%q)", es.Marker)
	}
	for _, u := range es.Uses {
		if u.Where == "value" || u.Where == "const" {
			v += useText(u, "")
		}
	}
	return v
}

func (es *ESide) noValueType() string { return "struct{ F int `" + es.Marker + "` }" }

// specText renders a value spec (without keyword). names: "" entries are rendered as `_`
// (only used by the expected rendering of Call specs), skip: sides left out entirely.
func specText(tok string, sp *MSpec, keep func(*ESide) bool, iotaFirst bool, iotaRepeat bool, iotaType ...string) string {
	if sp.single() {
		// single-value context: the names that are gone become placeholders, the specification
		// stays as long as one of its names does (keep reports false for the placeholders of a
		// specification that is gone, see aliveFn)
		var names []string
		any := false
		arg := fmt.Sprintf("%q", sp.Marker)
		for _, s := range sp.Sides {
			if keep(s) {
				names = append(names, s.Ent.Name)
				any = true
			} else {
				names = append(names, "_")
			}
			for _, u := range s.Uses {
				if u.Where == "value" && !strings.HasPrefix(useText(u, ""), "[") {
					arg += useText(u, "")
				}
			}
		}
		if !any {
			return ""
		}
		if sp.NoVal {
			return strings.Join(names, ", ") + " struct{ F int `" + sp.Marker + "` }"
		}
		typ := ""
		if sp.Type != "" {
			typ = " " + sp.Type
		}
		return fmt.Sprintf("%s%s = mk%d(%s)", strings.Join(names, ", "), typ, len(sp.Sides), arg)
	}
	var names, vals []string
	for _, s := range sp.Sides {
		if !keep(s) {
			continue
		}
		names = append(names, s.Ent.Name)
		vals = append(vals, s.valueExpr())
	}
	if len(names) == 0 {
		return ""
	}
	first := sp.Sides[0]
	switch {
	case iotaFirst:
		if len(iotaType) > 0 && iotaType[0] != "" {
			return names[0] + " " + iotaType[0] + " = iota + 100"
		}
		return names[0] + " = iota + 100"
	case iotaRepeat:
		return names[0]
	case len(sp.Sides) == 1 && first.Embed:
		return names[0] + " string"
	case len(sp.Sides) == 1 && first.NoValue:
		return names[0] + " " + first.noValueType()
	}
	typ := sp.Type
	if len(sp.Sides) == 1 && first.Typed {
		typ = "string"
	}
	if typ != "" {
		typ = " " + typ
	}
	return strings.Join(names, ", ") + typ + " = " + strings.Join(vals, ", ")
}

func (sp *MSpec) docText(embedOK bool) []string {
	doc := append([]string{}, sp.Doc...)
	if sp.Purge {
		doc = append(doc, "//gopherjs:purge")
	}
	if embedOK && len(sp.Sides) == 1 && sp.Sides[0].Embed {
		doc = append(doc, "//go:embed "+sp.Sides[0].Marker+".txt")
	}
	return doc
}

// declText renders a complete declaration from the model.
func declText(d *MDecl) string {
	var b strings.Builder
	if d.Tok == "func" {
		return d.Specs[0].Sides[0].ownFuncText()
	}
	all := func(*ESide) bool { return true }
	docLines(&b, "", d.Doc)
	if d.Purge {
		b.WriteString("//gopherjs:purge\n")
		if len(d.Doc) > 0 {
			b.WriteString("// This also purges what is attached to it.\n")
		}
	}
	one := func(i int, sp *MSpec) string {
		if d.Tok == "type" {
			return sp.Sides[0].typeSpecText()
		}
		return specText(d.Tok, sp, all, d.Iota && i == 0, d.Iota && i > 0, d.IotaType)
	}
	if !d.Paren {
		docLines(&b, "", d.Specs[0].docText(true))
		b.WriteString(d.Tok + " " + one(0, d.Specs[0]) + "\n")
		return b.String()
	}
	b.WriteString(d.Tok + " (\n")
	for i, sp := range d.Specs {
		docLines(&b, "\t", sp.docText(true))
		b.WriteString("\t" + one(i, sp) + "\n")
	}
	b.WriteString(")\n")
	return b.String()
}

func importsText(imps []string, block bool) string {
	if len(imps) == 0 {
		return ""
	}
	var b strings.Builder
	if block {
		b.WriteString("import (\n")
		for _, i := range imps {
			b.WriteString("\t" + i + "\n")
		}
		b.WriteString(")\n\n")
	} else {
		for _, i := range imps {
			b.WriteString("import " + i + "\n")
		}
		b.WriteString("\n")
	}
	return b.String()
}

func (f *MFile) text() string {
	if f.Raw != "" {
		return f.Raw
	}
	var b strings.Builder
	if len(f.Header) > 0 {
		docLines(&b, "", f.Header)
		b.WriteString("\n")
	}
	docLines(&b, "", f.PkgDoc)
	b.WriteString("package p\n\n")
	var imps []string
	for _, i := range f.Imports {
		imps = append(imps, i.spec())
	}
	b.WriteString(importsText(imps, f.ImportBlock))
	for i, d := range f.Decls {
		if fl := f.Floating[i]; len(fl) > 0 {
			docLines(&b, "", fl)
			b.WriteString("\n")
		}
		b.WriteString(declText(d))
		b.WriteString("\n")
	}
	if fl := f.Floating[len(f.Decls)]; len(fl) > 0 {
		docLines(&b, "", fl)
	}
	return b.String()
}

const helperText = `package p

// helpers referenced by every generated declaration; no overlay ever names them
func mk(s string) string { return s }

func mk2(s string) (string, string) { return s, s }

func mk3(s string) (string, string, string) { return s, s, s }

func zero[T any]() (z T) { return }
`

// sides iterates over all entity sides of a file in source order.
func (f *MFile) sides() []*ESide {
	var out []*ESide
	for _, d := range f.Decls {
		for _, sp := range d.Specs {
			out = append(out, sp.Sides...)
		}
	}
	return out
}

// link sets the back pointers after placement or shrinking.
func (m *Model) link() {
	for side := range m.Files {
		for _, f := range m.Files[side] {
			for _, d := range f.Decls {
				for _, sp := range d.Specs {
					for _, s := range sp.Sides {
						s.file, s.decl, s.spec = f, d, sp
					}
				}
			}
		}
	}
}

// ---------------------------------------------------------------- the expected merge result

// purged reports whether an overlay side carries the purge directive (own, spec or declaration level).
func (es *ESide) purged() bool {
	if es.Kind == "func" || es.Kind == "method" {
		return es.Ent.Dir == dirPurge
	}
	return es.spec.Purge || es.decl.Purge
}

type ExpFile struct {
	Name           string
	Text           string
	Imports        []string
	ImportsChecked bool
	Touched        bool
	Transplant     bool // received a signature from another file (its positions are foreign)
	Survivors      int
	NestedOnly     int // imports of a pruned file that are referenced only below another selector
	BlankSingle    int // all-blank single-value specs of an original file next to overrides
}

// aliveFn tells which entity sides of the files of one side are part of the merged package.
// A blank name of a single-value spec (`var _, a = f()`, `var _, a T`) is a placeholder: it stays
// while the spec stays, and the spec stays while one of its names is left - or if it never had
// any (`var _, _ = f()` is evaluated for its effect and nothing can override it).
func aliveFn(side int, fate map[*ESide]string) func(*ESide) bool {
	base := func(s *ESide) bool {
		if side == sideOver {
			return !s.purged() && !((s.Kind == "func" || s.Kind == "method") && s.Ent.Dir == dirSig)
		}
		return fate[s] != "drop"
	}
	return func(s *ESide) bool {
		if !base(s) {
			return false
		}
		if s.Ent.Name == "_" && s.decl != nil && s.decl.Iota {
			// placeholder of a positional constant group: same rule, for the whole group
			named := false
			for _, sp := range s.decl.Specs {
				for _, x := range sp.Sides {
					if x.Ent.Name != "_" {
						named = true
						if base(x) {
							return true
						}
					}
				}
			}
			return !named
		}
		if s.Ent.Name == "_" && s.spec != nil && s.spec.single() && !s.spec.allBlank() {
			for _, x := range s.spec.Sides {
				if x.Ent.Name != "_" && base(x) {
					return true
				}
			}
			return false
		}
		return true
	}
}

// fate of an original side: "", "drop", "keep" (renamed), "sig" (signature replaced)
func (m *Model) fates() (overKeys map[string]*ESide, fate map[*ESide]string) {
	overKeys = map[string]*ESide{}
	purgedTypes := map[string]bool{}
	for _, f := range m.Files[sideOver] {
		for _, s := range f.sides() {
			k := s.Ent.key()
			if k == "init" || k == "_" {
				// init functions never override each other; the blank identifier is not a name
				continue
			}
			overKeys[k] = s
			if s.Kind == "type" && s.purged() {
				purgedTypes[k] = true
			}
		}
	}
	fate = map[*ESide]string{}
	for _, f := range m.Files[sideOrig] {
		for _, s := range f.sides() {
			o, overridden := overKeys[s.Ent.key()]
			if s.Ent.Name == "init" && s.Ent.Recv == "" || s.Ent.Name == "_" {
				overridden = false
			}
			isFunc := s.Kind == "func" || s.Kind == "method"
			oFunc := overridden && (o.Kind == "func" || o.Kind == "method")
			switch {
			case overridden && isFunc && oFunc && o.Ent.Dir == dirKeep:
				fate[s] = "keep"
			case overridden && isFunc && oFunc && o.Ent.Dir == dirSig:
				fate[s] = "sig"
			case overridden:
				fate[s] = "drop"
			case s.Kind == "method" && purgedTypes[s.Ent.Recv]:
				fate[s] = "drop"
			}
		}
	}
	return
}

// expect computes the merged package the documentation promises, as source text per file
// (overlay files first), every survivor rendered as a declaration of its own.
func (m *Model) expect() []ExpFile {
	overKeys, fate := m.fates()
	var out []ExpFile
	nosync := false
	for _, p := range nosyncPackages {
		if p == m.ImportPath {
			nosync = true
		}
	}
	for side := sideOver; side >= sideOrig; side-- {
		for _, f := range m.Files[side] {
			ef := ExpFile{Name: f.Name}
			if f.Raw != "" {
				ef.Text, ef.ImportsChecked = f.Raw, true
				ef.Survivors = 3
				out = append(out, ef)
				continue
			}
			alive := aliveFn(side, fate)
			var body strings.Builder
			usedPath := map[string]bool{} // by the transplanted signature of an override-signature
			hasLinkname, hasEmbed := false, false
			for _, d := range f.Decls {
				for i, sp := range d.Specs {
					if sp.single() {
						if t := specText(d.Tok, sp, alive, false, false); t != "" {
							body.WriteString("var " + t + "\n\n")
						}
						if side == sideOrig && sp.allBlank() && len(overKeys) > 0 {
							ef.BlankSingle++
						}
					}
					for _, s := range sp.Sides {
						if !alive(s) {
							ef.Touched = true
							continue
						}
						ef.Survivors++
						switch {
						case s.Kind == "func" || s.Kind == "method":
							name, recv, sig, sigUses := s.Ent.Name, s.Recv, s.Sig, s.sigUses()
							switch fate[s] {
							case "keep":
								name = keepPrefix + name
								ef.Touched = true
							case "sig":
								o := overKeys[s.Ent.key()]
								recv, sig, sigUses = o.Recv, o.Sig, o.sigUses()
								ef.Touched, ef.Transplant = true, true
								for _, u := range sigUses {
									usedPath[u.Imp.Path] = true
								}
							}
							if s.Linkname {
								hasLinkname = true
							}
							body.WriteString(funcText(s.funcDocExpected(), s.Ent.Recv, recv, name, sig, sigUses, s) + "\n")
						case s.Kind == "type":
							body.WriteString("type " + s.typeSpecText() + "\n\n")
						case sp.single():
							// rendered with its spec above
						case d.Iota:
							// rendered with its group below
						default:
							if s.Embed {
								hasEmbed = true
								body.WriteString("//go:embed " + s.Marker + ".txt\n")
							}
							one := &MSpec{Type: sp.Type, Sides: []*ESide{s}}
							body.WriteString(d.Tok + " " + specText(d.Tok, one, func(*ESide) bool { return true }, false, false) + "\n\n")
						}
					}
					_ = i
				}
				if d.Iota {
					// The values of the surviving constants must be what they were: keep the
					// positions of removed specs with blank placeholders.
					// A group none of whose constants is left is gone altogether (its
					// expressions may refer to purged declarations).
					anyAlive := false
					for _, sp := range d.Specs {
						anyAlive = anyAlive || alive(sp.Sides[0])
					}
					typ := ""
					if d.IotaType != "" {
						typ = " " + d.IotaType
					}
					for i, sp := range d.Specs {
						if !anyAlive {
							break
						}
						n := "_"
						if alive(sp.Sides[0]) {
							n = sp.Sides[0].Ent.Name
						}
						switch {
						case i == 0:
							body.WriteString("const (\n\t" + n + typ + " = iota + 100\n")
						default:
							body.WriteString("\t" + n + "\n")
						}
						if i == len(d.Specs)-1 {
							body.WriteString(")\n\n")
						}
					}
				}
			}
			// which imports are still referenced: a use by a signature that was replaced does
			// not count; the call of a single-call spec stays while any of its names stays
			used := map[*MImport]bool{}
			direct := map[*MImport]bool{} // referenced at least once by a plain qualified identifier
			for _, s := range f.sides() {
				live := alive(s)
				if s.spec.Call {
					for _, x := range s.spec.Sides {
						live = live || alive(x)
					}
				}
				if !live {
					continue
				}
				for _, u := range s.Uses {
					if fate[s] == "sig" && u.Where == "sig" {
						continue
					}
					used[u.Imp] = true
					if !u.nested() {
						direct[u.Imp] = true
					}
				}
			}
			if ef.Touched && ef.Survivors > 0 {
				for im := range used {
					if !direct[im] && im.Form != "dot" {
						ef.NestedOnly++
					}
				}
			}
			var imps []string
			for _, im := range f.Imports {
				spec := im.spec()
				path := im.Path
				if nosync && side == sideOrig && im.Path == "sync" {
					path = nosyncPath
					switch im.Form {
					case "default":
						spec = fmt.Sprintf("sync %q", path)
					case "alias":
						spec = fmt.Sprintf("%s %q", im.Alias, path)
					case "blank":
						spec = fmt.Sprintf("_ %q", path)
					case "dot":
						spec = fmt.Sprintf(". %q", path)
					}
				}
				if !ef.Touched {
					imps = append(imps, spec)
					continue
				}
				switch {
				case im.Form == "blank", im.Form == "dot", used[im], usedPath[im.Path] && im.Form == "default":
					imps = append(imps, spec)
				case im.Path == "unsafe" && hasLinkname, im.Path == "embed" && hasEmbed:
					imps = append(imps, fmt.Sprintf("_ %q", im.Path))
				}
			}
			ef.ImportsChecked = !(ef.Touched && ef.Survivors == 0)
			if !ef.ImportsChecked {
				imps = nil
			}
			ef.Imports = imps
			ef.Text = "package p\n\n" + importsText(imps, true) + body.String()
			out = append(out, ef)
		}
	}
	return out
}

// funcDocExpected: the //go: directives of a surviving function must survive with it.
func (es *ESide) funcDocExpected() []string {
	if es.Linkname {
		return []string{fmt.Sprintf("//go:linkname %s runtime.%s", es.Ent.Name, es.Marker)}
	}
	return nil
}
