package c12

import (
	"fmt"
	"strings"
)

// The syntactic positions in which a generated declaration refers to an imported package.
// An import is "used" by a file if any of these occurs in it, whatever the position: directly
// (`pkg.Name`), as the operand of a further selector, call, index or conversion
// (`pkg.New().Len()`, `pkg.V.F`, `pkg.T{}.M()`, `(*pkg.T)(nil).PM`, `pkg.T.M`), as a type argument,
// inside composite literal types and keys, in array lengths, embedded fields, closures, ...
// Every reference of the model (Use) carries a form number that selects one of these shapes; the
// expectation (which imports survive) does not depend on the shape.
//
// Placeholders: {q} qualifier ("math.", "xmath." or "" for dot imports), {p} member prefix
// ("Math"), {n} a name that is unique inside the hosting declaration.

type useForm struct {
	name string
	tmpl string
	// nested: every reference of the form to the package sits below an enclosing selector
	// expression (nothing of the shape `pkg.Name` that is not itself the operand of a selector)
	nested bool
}

var (
	// statements of a function body
	bodyForms = []useForm{
		{"const", "_ = {q}{p}C", false},
		{"call", "_ = {q}{p}F()", false},
		{"call-then-method", "_ = {q}{p}New().Len()", true},
		{"var-field", "_ = {q}{p}V.F", true},
		{"var-field-deep", "_ = {q}{p}V.Next.Next.S", true},
		{"literal-method", "_ = {q}{p}T{}.M()", true},
		{"conversion-method-value", "_ = (*{q}{p}T)(nil).PM", true},
		{"method-expr", "_ = {q}{p}T.M", true},
		{"ptr-method-expr", "_ = (*{q}{p}T).PM", true},
		{"index-field", "_ = {q}{p}Arr[0].F", true},
		{"generic-literal-method", "_ = {q}{p}G[int]{}.Get()", true},
		{"generic-func", "_ = {q}{p}GF[int](0)", false},
		{"type-arg", "_ = zero[{q}{p}T]()", false},
		{"type-arg-then-method", "_ = zero[*{q}{p}T]().Len", true},
		{"local-var-type", "var u{n} {q}{p}T; _ = u{n}", false},
		{"map-literal", "_ = map[{q}{p}T]int{{q}{p}T{}: {q}{p}C}", false},
		{"slice-literal", "_ = []*{q}{p}T{}", false},
		{"array-length", "_ = [{q}{p}C]int{}", false},
		{"array-length-field", "_ = [len({q}{p}V.A)]int{}", true},
		{"type-assertion", "_, _ = any(nil).({q}{p}T)", false},
		{"type-switch", "switch any(nil).(type) { case *{q}{p}T: }", false},
		{"closure", "_ = func() int { return {q}{p}C }()", false},
		{"closure-field", "_ = func() int { return {q}{p}V.F }", true},
		{"defer", "defer {q}{p}F()", false},
		{"defer-method", "defer {q}{p}New().Len()", true},
		{"go", "go {q}{p}F()", false},
		{"address", "_ = &{q}{p}V", false},
		{"address-field", "_ = &{q}{p}V.F", true},
		{"embedded-anonymous", "_ = struct{ {q}{p}T }{}", false},
		{"keyed-literal-field", "_ = {q}{p}T{F: 1}.F", true},
		{"range", "for range {q}{p}Arr { }", false},
		{"range-field", "for range {q}{p}V.A { }", true},
		{"if-init", "if u{n} := {q}{p}New(); u{n} != nil { _ = u{n}.F }", false},
		{"func-type", "_ = func({q}{p}T) {}", false},
		{"interface-conversion", "_ = {q}{p}I({q}{p}T{})", false},
		{"interface-conversion-method", "_ = {q}{p}I({q}{p}T{}).M()", true},
		{"paren-field", "_ = ({q}{p}V).F", true},
		{"deref-field", "_ = (*{q}{p}New()).F", true},
		{"slice-of-field", "_ = {q}{p}V.S[0:]", true},
		{"assign-field", "{q}{p}V.F = 0", true},
		{"incdec-field", "{q}{p}Arr[1].F++", true},
	}
	// type expressions: parameters of a signature, named fields
	typeForms = []useForm{
		{"named", "{q}{p}T", false},
		{"pointer", "*{q}{p}T", false},
		{"slice", "[]{q}{p}T", false},
		{"map", "map[string]{q}{p}T", false},
		{"func", "func({q}{p}T) *{q}{p}T", false},
		{"generic", "{q}{p}G[int]", false},
		{"generic-of-named", "{q}{p}G[{q}{p}T]", false},
		{"chan", "chan {q}{p}T", false},
		{"array-length", "[{q}{p}C]int", false},
		{"array-length-field", "[len({q}{p}V.A)]int", true},
		{"array-length-index", "[len({q}{p}Arr[0].A)]string", true},
		{"struct-embedded", "struct{ {q}{p}T }", false},
		{"interface-embedded", "interface{ {q}{p}I }", false},
		{"interface", "{q}{p}I", false},
	}
	// embedded fields of a struct type (the other fields use typeForms)
	embeddedForms = []useForm{
		{"embedded", "{q}{p}T", false},
		{"embedded-pointer", "*{q}{p}T", false},
		{"embedded-generic", "{q}{p}G[int]", false},
		{"embedded-interface", "{q}{p}I", false},
	}
	// elements of an interface type
	ifaceForms = []useForm{
		{"iface-embedded", "{q}{p}I", false},
		{"iface-method-result", "U{n}() {q}{p}T", false},
		{"iface-method-param", "U{n}({q}{p}G[int], [len({q}{p}V.A)]int)", false},
	}
	// string typed expressions appended (with +) to a variable initialiser
	valueForms = []useForm{
		{"call", " + {q}{p}S()", false},
		{"call-then-method", " + {q}{p}New().Str()", true},
		{"var-field", " + {q}{p}V.S", true},
		{"var-field-deep", " + {q}{p}V.Next.S", true},
		{"literal-method", " + {q}{p}T{}.Str()", true},
		{"const", " + {q}{p}K", false},
		{"index-field", " + {q}{p}Arr[0].S", true},
		{"generic-literal-method", " + {q}{p}G[string]{}.Get()", true},
		{"generic-func", " + {q}{p}GF[string](\"\")", false},
		{"type-arg-then-method", " + zero[{q}{p}T]().Str()", true},
		{"closure", " + func() string { return {q}{p}K }()", false},
		{"method-expr-call", " + {q}{p}T.Str({q}{p}T{})", false},
		{"address-literal-method", " + (&{q}{p}T{}).Str()", true},
		{"map-index-field", " + map[string]string{}[{q}{p}V.S]", true},
		{"conversion-of-field", " + string(rune({q}{p}V.F))", true},
		{"slice-of-field", " + {q}{p}V.S[0:]", true},
		{"keyed-literal-field", " + {q}{p}T{S: {q}{p}K}.S", true},
	}
	// constant string expressions appended to a constant
	constForms = []useForm{
		{"const", " + {q}{p}K", false},
		{"paren", " + ({q}{p}K)", false},
		{"conversion", " + string({q}{p}K)", false},
		{"twice", " + {q}{p}K + {q}{p}K", false},
		{"len-of-field", " + string(rune(len({q}{p}V.A)))", true},
		{"len-of-index-field", " + string(rune('a' + len({q}{p}Arr[1].A)))", true},
	}

	// package unsafe ({p} is not used)
	unsafeBodyForms = []useForm{
		{"unsafe-sizeof", "_ = {q}Sizeof(0)", false},
		{"unsafe-conversion", "_ = {q}Pointer(nil)", false},
		{"unsafe-nested-conversion", "_ = (*int)({q}Pointer(nil))", false},
		{"unsafe-local-var", "var u{n} {q}Pointer; _ = u{n}", false},
		{"unsafe-slice-literal", "_ = []{q}Pointer{}", false},
		{"unsafe-literal-field", "_ = struct{ p {q}Pointer }{}.p", true},
		{"unsafe-closure", "_ = func() {q}Pointer { return nil }()", false},
		{"unsafe-offsetof", "_ = {q}Offsetof(struct{ a, b int }{}.b)", false},
		{"unsafe-type-arg", "_ = zero[{q}Pointer]()", false},
		{"unsafe-array-length", "_ = [{q}Sizeof(0)]int{}", false},
	}
	unsafeTypeForms = []useForm{
		{"unsafe-pointer", "{q}Pointer", false},
		{"unsafe-pointer-pointer", "*{q}Pointer", false},
		{"unsafe-slice", "[]{q}Pointer", false},
		{"unsafe-array-length", "[{q}Sizeof(0)]int", false},
		{"unsafe-map", "map[{q}Pointer]int", false},
		{"unsafe-func", "func({q}Pointer)", false},
		{"unsafe-struct", "struct{ p {q}Pointer }", false},
		{"unsafe-array-length-field", "[{q}Sizeof(struct{ p {q}Pointer }{}.p)]int", false},
	}
	// slice expressions appended to a string typed initialiser; all of them start with "["
	unsafeValueForms = []useForm{
		{"unsafe-sizeof", "[{q}Sizeof(0)*0:]", false},
		{"unsafe-sizeof-literal", "[{q}Sizeof([1]{q}Pointer{})*0:]", false},
		{"unsafe-conversion", "[len(*(*string)({q}Pointer(new(string)))):]", false},
		{"unsafe-offsetof", "[{q}Offsetof(struct{ a, b int }{}.a):]", false},
		{"unsafe-literal-field", "[{q}Sizeof(struct{ p {q}Pointer }{}.p)*0:]", false},
	}
	embedTypeForms = []useForm{
		{"embed-fs", "{q}FS", false},
		{"embed-pointer", "*{q}FS", false},
		{"embed-slice", "[]{q}FS", false},
		{"embed-map", "map[string]{q}FS", false},
		{"embed-struct", "struct{ {q}FS }", false},
	}
)

// form returns the shape of a use. field reports whether the result is a complete field /
// interface element rather than a type expression that still needs a name.
func (u Use) form() (f useForm, complete bool) {
	pick := func(pool []useForm) useForm { return pool[u.Form%len(pool)] }
	unsafe, embed := u.Imp.Path == "unsafe", u.Imp.Path == "embed"
	switch u.Where {
	case "body":
		if unsafe {
			return pick(unsafeBodyForms), true
		}
		return pick(bodyForms), true
	case "sig", "field":
		switch {
		case unsafe:
			return pick(unsafeTypeForms), false
		case embed:
			return pick(embedTypeForms), false
		case u.Where == "field" && u.Form%3 == 0:
			return embeddedForms[(u.Form/3)%len(embeddedForms)], true
		}
		return pick(typeForms), false
	case "iface":
		return pick(ifaceForms), true
	case "value":
		if unsafe {
			return pick(unsafeValueForms), true
		}
		return pick(valueForms), true
	case "const":
		return pick(constForms), true
	}
	panic("bad use " + u.Where)
}

// label names the shape for the evidence histogram.
func (u Use) label() string {
	f, _ := u.form()
	return u.Where + ":" + f.name
}

// nested reports whether the reference sits below another selector expression.
func (u Use) nested() bool {
	f, _ := u.form()
	return f.nested
}

// useText renders a use; n makes the names it introduces unique within the declaration.
func useText(u Use, n string) string {
	f, complete := u.form()
	t := strings.NewReplacer("{q}", u.Imp.qual(), "{p}", u.Imp.prefix(), "{n}", n).Replace(f.tmpl)
	if !complete {
		t = "u" + n + " " + t
	}
	return t
}

// Shadow is a local object named like an import of the file (it must not count as a use).
type Shadow struct {
	Imp  *MImport
	Form int
}

func shadowStmts(sh Shadow) []string {
	i := sh.Imp
	l := i.local()
	field := i.prefix() + "C"
	if i.Path == "unsafe" {
		field = "Pointer"
	}
	typ := fmt.Sprintf("struct{ %s int }", field)
	switch sh.Form % 4 {
	case 1: // a parameter of a function literal
		return []string{fmt.Sprintf("func(%s %s) { _ = %s.%s }(%s{})", l, typ, l, field, typ)}
	case 2: // a variable declaration, referenced through a chain
		return []string{fmt.Sprintf("var %s struct{ in %s }", l, typ), fmt.Sprintf("_ = %s.in.%s", l, field)}
	case 3: // a named result of a function literal
		return []string{fmt.Sprintf("_ = func() (%s %s) { %s.%s++; return }", l, typ, l, field)}
	}
	return []string{fmt.Sprintf("%s := %s{}", l, typ), fmt.Sprintf("_ = %s.%s", l, field)}
}
