package c12

import (
	"fmt"
	"math/rand"
	"strings"
)

type gen struct {
	r       *rand.Rand
	m       *Model
	n       int
	hasOver bool
	fn      [2][]*ESide
	ty      [2][]*ESide
	vr      [2][]*ESide
	cn      [2][]*ESide
}

func (g *gen) marker(side int) string {
	g.n++
	return fmt.Sprintf("%c%d", "ov"[side], g.n)
}

// pick returns an index with the given weights.
func (g *gen) pick(w ...int) int {
	t := 0
	for _, x := range w {
		t += x
	}
	v := g.r.Intn(t)
	for i, x := range w {
		if v < x {
			return i
		}
		v -= x
	}
	return len(w) - 1
}

func (g *gen) origin(wo, wv, wb int) int {
	if !g.hasOver {
		return oOrig
	}
	return []int{oOrig, oOver, oBoth}[g.pick(wo, wv, wb)]
}

var tpNameSets = [][]string{{"K", "V"}, {"A", "B"}, {"P", "Q"}, {"_", "_"}}

func (g *gen) sig(generic bool) Sig {
	pool := []Sig{
		{},
		{Params: []string{"a int"}},
		{Params: []string{"a int"}, Results: []string{"r0 int"}},
		{Params: []string{"a, b string"}, Results: []string{"r0 string", "r1 bool"}},
		{Params: []string{"a ...int"}, Results: []string{"r0 int"}},
		{Params: []string{"f func(int) string"}, Results: []string{"r0 error"}},
		{Params: []string{"a, b any"}, Results: []string{"r0 any", "r1 bool"}},
	}
	if generic {
		pool = append(pool,
			Sig{TParams: "[T any]", NT: 1, Params: []string{"x T"}, Results: []string{"r0 T"}},
			Sig{TParams: "[T comparable]", NT: 1, Params: []string{"a, b T"}, Results: []string{"r0 T", "r1 bool"}},
			Sig{TParams: "[K comparable, V any]", NT: 2, Params: []string{"m map[K]V"}, Results: []string{"r0 int"}},
		)
	}
	return pool[g.r.Intn(len(pool))]
}

func (g *gen) recv(arity int, forceNamed bool) *Recv {
	rc := &Recv{Ptr: g.r.Intn(2) == 0, Name: []string{"r", "r", "r", "_", ""}[g.r.Intn(5)]}
	if forceNamed {
		rc.Name = "r"
	}
	if arity > 0 {
		set := tpNameSets[g.r.Intn(len(tpNameSets))]
		rc.TArgs = append([]string{}, set[:arity]...)
	}
	return rc
}

// initSide fills the kind specific fields of a fresh side.
func (g *gen) initSide(s *ESide) {
	switch s.Kind {
	case "func":
		s.Sig = g.sig(true)
		s.OneLine = g.r.Intn(3) == 0
	case "method":
		s.Sig = g.sig(false)
		s.OneLine = g.r.Intn(3) == 0
	case "type":
		s.TypeKind = []string{"struct", "iface", "alias"}[g.pick(70, 15, 15)]
		if s.TypeKind == "struct" {
			s.Arity = g.pick(60, 20, 20)
			s.TPNames = tpNameSets[g.r.Intn(3)]
		}
	}
	if g.r.Intn(4) == 0 && (s.Kind == "func" || s.Kind == "method") {
		s.Doc = []string{"// " + s.Ent.Name + " is documented."}
	}
}

func (g *gen) newEnt(kind, name, recv string, origin int, dir string) *Ent {
	e := &Ent{Kind: kind, Name: name, Recv: recv, Origin: origin, Dir: dir}
	for side := 0; side < 2; side++ {
		if origin&(1<<side) == 0 {
			continue
		}
		s := &ESide{Ent: e, Side: side, Kind: kind, Marker: g.marker(side)}
		e.S[side] = s
		g.initSide(s)
	}
	g.m.Ents = append(g.m.Ents, e)
	return e
}

func (g *gen) register(e *Ent) {
	for side := 0; side < 2; side++ {
		s := e.S[side]
		if s == nil {
			continue
		}
		switch s.Kind {
		case "func", "method":
			g.fn[side] = append(g.fn[side], s)
		case "type":
			g.ty[side] = append(g.ty[side], s)
		case "var":
			g.vr[side] = append(g.vr[side], s)
		case "const":
			g.cn[side] = append(g.cn[side], s)
		}
	}
}

func inst(nt int) string {
	switch nt {
	case 1:
		return "[int]"
	case 2:
		return "[int, string]"
	}
	return ""
}

// Generate draws one model. workload: main | iota | blank.
func Generate(r *rand.Rand, workload string) *Model {
	g := &gen{r: r, m: &Model{Workload: workload, ImportPath: "verif/gen/p"}}
	m := g.m
	if r.Intn(4) == 0 {
		m.ImportPath = nosyncPackages[r.Intn(len(nosyncPackages))]
	}
	nOrig := 1 + r.Intn(3)
	nOver := g.pick(1, 6, 3)
	if workload != "main" && nOver == 0 {
		nOver = 1
	}
	g.hasOver = nOver > 0
	for i := 0; i < nOrig; i++ {
		m.Files[sideOrig] = append(m.Files[sideOrig], &MFile{Side: sideOrig, Name: string(rune('a'+i)) + ".go", Floating: map[int][]string{}})
	}
	h := &MFile{Side: sideOrig, Name: "helpers.go", Raw: helperText}
	at := r.Intn(nOrig + 1)
	m.Files[sideOrig] = append(m.Files[sideOrig][:at], append([]*MFile{h}, m.Files[sideOrig][at:]...)...)
	for i := 0; i < nOver; i++ {
		m.Files[sideOver] = append(m.Files[sideOver], &MFile{Side: sideOver, Name: string(rune('x'+i)) + ".go", Floating: map[int][]string{}})
	}

	// ---- types and their methods
	nT := r.Intn(4)
	for i := 0; i < nT; i++ {
		e := g.newEnt("type", fmt.Sprintf("T%d", i), "", g.origin(40, 20, 40), dirNone)
		if e.S[sideOver] != nil && r.Intn(100) < 35 {
			e.Dir = dirPurge
		}
		g.register(e)
		g.methods(e)
	}

	// ---- functions
	nF := r.Intn(5)
	for i := 0; i < nF; i++ {
		origin := g.origin(35, 25, 40)
		dir := dirNone
		switch {
		case origin == oBoth:
			dir = []string{dirNone, dirKeep, dirPurge, dirSig}[g.pick(40, 20, 20, 20)]
		case origin == oOver && r.Intn(6) == 0:
			dir = []string{dirKeep, dirPurge, dirSig}[r.Intn(3)]
		}
		e := g.newEnt("func", fmt.Sprintf("F%d", i), "", origin, dir)
		if o := e.S[sideOver]; o != nil {
			if dir == dirKeep && e.S[sideOrig] != nil {
				o.KeepRef = "_ = " + keepPrefix + e.Name + inst(e.S[sideOrig].Sig.NT)
			}
			if (dir == dirPurge || dir == dirSig) && r.Intn(10) < 7 {
				o.NoBody = true
			}
		}
		g.kindChange(e)
		g.register(e)
	}

	// ---- variables and constants
	for _, kc := range []struct {
		kind string
		n    int
	}{{"var", r.Intn(7)}, {"const", r.Intn(5)}} {
		for i := 0; i < kc.n; i++ {
			e := g.newEnt(kc.kind, fmt.Sprintf("%s%d", strings.ToUpper(kc.kind[:1]), i), "", g.origin(40, 20, 40), dirNone)
			if e.S[sideOver] != nil && r.Intn(100) < 30 {
				e.Dir = dirPurge
			}
			g.kindChange(e)
			g.register(e)
		}
	}

	// ---- blank names: they declare nothing, so nothing overrides them and they override
	// nothing. They are chunked into specs together with the named entities, which yields specs
	// that are blank altogether (`var _ = f()`, `var _ T`, `var _, _ = f2()`, `var _, _ T`,
	// `const _, _ = 1, 2`) and specs with placeholders (`var _, a = f2()`, `var a, _ = 1, 2`).
	nBlank := 0
	switch {
	case workload == "blank":
		nBlank = 2 + r.Intn(4)
	case r.Intn(4) == 0:
		nBlank = 1 + r.Intn(3)
	}
	for side := 0; side < 2; side++ {
		if side == sideOver && !g.hasOver {
			continue
		}
		for i := 0; i < nBlank; i++ {
			if side == sideOver && r.Intn(2) == 0 {
				continue
			}
			kind := []string{"var", "const"}[g.pick(75, 25)]
			g.register(g.newEnt(kind, "_", "", 1<<side, dirNone))
		}
	}

	// ---- placement
	for side := 0; side < 2; side++ {
		g.place(side)
	}

	// ---- init functions (never override each other), special workloads
	for side := 0; side < 2; side++ {
		for _, f := range m.Files[side] {
			if f.Raw == "" && r.Intn(100) < 30+10*side {
				e := g.newEnt("func", "init", "", 1<<side, dirNone)
				e.S[side].Sig = Sig{}
				g.insert(f, &MDecl{Tok: "func", Specs: []*MSpec{{Sides: []*ESide{e.S[side]}}}})
			}
		}
	}
	switch workload {
	case "iota", "blankiota":
		d := &MDecl{Tok: "const", Paren: true, Iota: true}
		n := 3 + r.Intn(3)
		hit := r.Intn(n)
		// variant (workload blankiota): the group has blank names only, `const ( _ = iota; _ )`;
		// nothing can override it, it has to stay what it is
		allBlank := workload == "blankiota"
		if allBlank {
			n = 1 + r.Intn(3)
		}
		// variant: a group typed by a purged type, all of whose constants are overridden or
		// purged too - nothing of the group may be left (it would refer to the purged type)
		allGone := !allBlank && r.Intn(4) == 0
		if allGone {
			d.IotaType = "TI"
			te := g.newEnt("type", "TI", "", oBoth, dirPurge)
			te.S[sideOrig].TypeKind, te.S[sideOver].TypeKind = "int", "int"
			g.insert(g.anyFile(sideOrig), &MDecl{Tok: "type", Specs: []*MSpec{{Sides: []*ESide{te.S[sideOrig]}}}})
			g.insert(g.anyFile(sideOver), &MDecl{Tok: "type", Specs: []*MSpec{{Purge: true, Sides: []*ESide{te.S[sideOver]}}}})
		}
		for i := 0; i < n; i++ {
			// blank placeholders of the original, `const ( _ = iota; A; B )`: they keep the
			// others in position and go when the last named constant of the group goes
			if allBlank || (i != hit && r.Intn(5) == 0) {
				e := g.newEnt("const", "_", "", oOrig, dirNone)
				d.Specs = append(d.Specs, &MSpec{Sides: []*ESide{e.S[sideOrig]}})
				continue
			}
			origin := oOrig
			if i == hit || allGone || r.Intn(4) == 0 {
				origin = oBoth
			}
			e := g.newEnt("const", fmt.Sprintf("I%d", i), "", origin, dirNone)
			d.Specs = append(d.Specs, &MSpec{Sides: []*ESide{e.S[sideOrig]}})
			if o := e.S[sideOver]; o != nil {
				sp := &MSpec{Sides: []*ESide{o}}
				if r.Intn(3) == 0 {
					e.Dir = dirPurge
					sp.Purge = true
				}
				g.insert(g.anyFile(sideOver), &MDecl{Tok: "const", Specs: []*MSpec{sp}})
			}
		}
		g.insert(g.anyFile(sideOrig), d)
	}
	m.link()

	// ---- directive-bearing declarations, imports and their uses
	for side := 0; side < 2; side++ {
		for _, f := range m.Files[side] {
			if f.Raw != "" {
				continue
			}
			g.directives(f)
			g.nearMisses(f)
			g.imports(f)
			g.comments(f)
		}
	}
	for side := 0; side < 2; side++ {
		for _, f := range m.Files[side] {
			if f.Raw == "" {
				g.uses(f)
				fixImports(f, func() bool { return r.Intn(2) == 0 })
			}
		}
	}
	m.fixDots()
	return m
}

func (g *gen) anyFile(side int) *MFile {
	var fs []*MFile
	for _, f := range g.m.Files[side] {
		if f.Raw == "" {
			fs = append(fs, f)
		}
	}
	return fs[g.r.Intn(len(fs))]
}

func (g *gen) insert(f *MFile, d *MDecl) {
	at := g.r.Intn(len(f.Decls) + 1)
	f.Decls = append(f.Decls[:at], append([]*MDecl{d}, f.Decls[at:]...)...)
}

// kindChange: an override may replace a declaration by one of another kind (the name is what counts).
func (g *gen) kindChange(e *Ent) {
	o := e.S[sideOver]
	if e.Origin != oBoth || (e.Dir != dirNone && e.Dir != dirPurge) || g.r.Intn(100) >= 8 {
		return
	}
	kinds := []string{"func", "var", "const", "type"}
	k := kinds[g.r.Intn(4)]
	if k == o.Kind {
		return
	}
	o.Kind = k
	o.NoBody, o.KeepRef = false, ""
	g.initSide(o)
}

func (g *gen) methods(e *Ent) {
	r := g.r
	orig, over := e.S[sideOrig], e.S[sideOver]
	purged := over != nil && e.Dir == dirPurge
	var final *ESide
	if !purged {
		final = orig
		if over != nil {
			final = over
		}
	}
	canOrig := orig != nil && orig.TypeKind == "struct"
	canLive := g.hasOver && final != nil && final.TypeKind == "struct"
	if !canOrig && !canLive {
		return
	}
	compat := canOrig && final != nil && final.TypeKind == "struct" && final.Arity == orig.Arity
	type opt struct {
		origin int
		dir    string
	}
	for j, nm := 0, r.Intn(4); j < nm; j++ {
		var opts []opt
		if canOrig {
			if purged || compat {
				opts = append(opts, opt{oOrig, dirNone}, opt{oOrig, dirNone}, opt{oOrig, dirNone})
			}
			if g.hasOver {
				opts = append(opts, opt{oBoth, dirPurge})
				if canLive {
					opts = append(opts, opt{oBoth, dirNone}, opt{oBoth, dirSig})
					if compat {
						opts = append(opts, opt{oBoth, dirKeep})
					}
				}
			}
		}
		if canLive {
			opts = append(opts, opt{oOver, dirNone})
			if r.Intn(6) == 0 {
				opts = append(opts, opt{oOver, dirKeep})
			}
		}
		if g.hasOver && r.Intn(8) == 0 {
			opts = append(opts, opt{oOver, dirPurge}, opt{oOver, dirSig})
		}
		if len(opts) == 0 {
			continue
		}
		o := opts[r.Intn(len(opts))]
		me := g.newEnt("method", fmt.Sprintf("M%d", j), e.Name, o.origin, o.dir)
		if s := me.S[sideOrig]; s != nil {
			s.Recv = g.recv(orig.Arity, false)
		}
		if s := me.S[sideOver]; s != nil {
			arity := 0
			if final != nil && final.TypeKind == "struct" {
				arity = final.Arity
			} else if orig != nil {
				arity = orig.Arity
			}
			s.Recv = g.recv(arity, o.dir == dirKeep)
			if o.dir == dirKeep && me.S[sideOrig] != nil {
				s.KeepRef = "_ = r." + keepPrefix + me.Name
			}
			if (o.dir == dirPurge || o.dir == dirSig) && r.Intn(10) < 7 {
				s.NoBody = true
			}
		}
		g.register(me)
	}
}

// valueSpecs chunks value sides into single-name, multi-name and single-call specs.
func (g *gen) valueSpecs(list []*ESide, side int, isVar bool) []*MSpec {
	r := g.r
	r.Shuffle(len(list), func(i, j int) { list[i], list[j] = list[j], list[i] })
	var groups [][]*ESide
	if side == sideOver { // a purge directive on a spec applies to all its names
		var a, b []*ESide
		for _, s := range list {
			if s.Ent.Dir == dirPurge {
				a = append(a, s)
			} else {
				b = append(b, s)
			}
		}
		groups = [][]*ESide{a, b}
	} else {
		groups = [][]*ESide{list}
	}
	var out []*MSpec
	for _, l := range groups {
		for len(l) > 0 {
			k, roll := 1, r.Intn(100)
			if roll >= 55 && len(l) >= 2 {
				k = 2 + r.Intn(2)
				if k > len(l) {
					k = len(l)
				}
			}
			sp := &MSpec{Sides: l[:k:k]}
			l = l[k:]
			if k > 1 {
				switch {
				case isVar && roll >= 80:
					sp.Call, sp.Marker = true, g.marker(side)
					if r.Intn(4) == 0 {
						sp.Type = "string"
					}
				case isVar && roll >= 72:
					sp.NoVal, sp.Marker = true, g.marker(side)
				case r.Intn(3) == 0:
					sp.Type = "string"
				}
			} else {
				s := sp.Sides[0]
				s.Typed = r.Intn(4) == 0
				if isVar && (r.Intn(10) == 0 || (s.Ent.Name == "_" && r.Intn(4) == 0)) {
					s.NoValue = true
				}
			}
			if side == sideOver && sp.Sides[0].Ent.Dir == dirPurge {
				sp.Purge = true
			}
			if r.Intn(5) == 0 {
				sp.Doc = []string{"// about " + sp.Sides[0].Ent.Name}
			}
			out = append(out, sp)
		}
	}
	r.Shuffle(len(out), func(i, j int) { out[i], out[j] = out[j], out[i] })
	return out
}

func (g *gen) groupSpecs(tok string, specs []*MSpec) []*MDecl {
	r := g.r
	var out []*MDecl
	for len(specs) > 0 {
		k := 1
		d := &MDecl{Tok: tok}
		if r.Intn(2) == 0 {
			d.Paren = r.Intn(6) == 0
		} else {
			d.Paren = true
			k = 1 + r.Intn(3)
			if k > len(specs) {
				k = len(specs)
			}
		}
		d.Specs = specs[:k:k]
		specs = specs[k:]
		all := true
		for _, sp := range d.Specs {
			all = all && sp.Purge
		}
		if all && d.Paren && r.Intn(2) == 0 { // directive on the whole declaration
			d.Purge = true
			for _, sp := range d.Specs {
				sp.Purge = false
			}
		}
		if d.Paren && r.Intn(5) == 0 {
			d.Doc = []string{"// a group of declarations"}
		}
		out = append(out, d)
	}
	return out
}

func (g *gen) place(side int) {
	r := g.r
	var files []*MFile
	for _, f := range g.m.Files[side] {
		if f.Raw == "" {
			files = append(files, f)
		}
	}
	if len(files) == 0 {
		return
	}
	var decls []*MDecl
	for _, s := range g.fn[side] {
		decls = append(decls, &MDecl{Tok: "func", Specs: []*MSpec{{Sides: []*ESide{s}}}})
	}
	var tspecs []*MSpec
	for _, s := range g.ty[side] {
		sp := &MSpec{Sides: []*ESide{s}}
		if side == sideOver && s.Ent.Dir == dirPurge {
			sp.Purge = true
		}
		tspecs = append(tspecs, sp)
	}
	r.Shuffle(len(tspecs), func(i, j int) { tspecs[i], tspecs[j] = tspecs[j], tspecs[i] })
	decls = append(decls, g.groupSpecs("type", tspecs)...)
	decls = append(decls, g.groupSpecs("var", g.valueSpecs(g.vr[side], side, true))...)
	decls = append(decls, g.groupSpecs("const", g.valueSpecs(g.cn[side], side, false))...)
	for _, d := range decls {
		f := files[r.Intn(len(files))]
		f.Decls = append(f.Decls, d)
	}
	for _, f := range files {
		r.Shuffle(len(f.Decls), func(i, j int) { f.Decls[i], f.Decls[j] = f.Decls[j], f.Decls[i] })
	}
}

func (f *MFile) imp(path string) *MImport {
	for _, i := range f.Imports {
		if i.Path == path {
			return i
		}
	}
	return nil
}

// directives: //go:linkname functions and //go:embed variables (both need their import).
func (g *gen) directives(f *MFile) {
	r := g.r
	for _, s := range f.sides() {
		e := s.Ent
		oneSided := e.Origin != oBoth && e.Dir == dirNone
		// a linknamed function may also be the original that an overlay replaces or purges, or
		// the overlay that replaces an original
		linkable := oneSided || (e.Origin == oBoth && s.Kind == e.S[sideOrig].Kind && s.Kind == e.S[sideOver].Kind &&
			((s.Side == sideOrig && (e.Dir == dirNone || e.Dir == dirPurge)) || (s.Side == sideOver && e.Dir == dirNone)))
		switch {
		case s.Kind == "func" && e.Name != "init" && linkable && r.Intn(100) < 15:
			s.Linkname, s.NoBody, s.Doc = true, true, nil
			if s.Sig.NT > 0 { // a generic function cannot lack a body
				s.Sig = g.sig(false)
			}
			if f.imp("unsafe") == nil {
				// "default" survives only if some declaration of the file really uses it
				f.Imports = append(f.Imports, &MImport{Path: "unsafe", Form: []string{"blank", "default"}[r.Intn(2)]})
			}
		case s.Kind == "var" && e.Name != "_" && oneSided && len(s.spec.Sides) == 1 && !s.NoValue && !s.spec.single() && r.Intn(100) < 10:
			s.Embed, s.Typed = true, false
			if f.imp("embed") == nil {
				f.Imports = append(f.Imports, &MImport{Path: "embed", Form: []string{"blank", "default"}[r.Intn(2)]})
			}
		}
	}
}

// nearMiss: comments that look like a directive but are not one of the three documented ones.
var nearMiss = []string{"// gopherjs:purge", "//gopherjs:purged", "//gopherjs:keep", "//gopherjs:keep-originals", "//gopherjs:override", "//gopherjs:override-signatures", "//gopherjs: purge"}

func (g *gen) nearMisses(f *MFile) {
	r := g.r
	for _, d := range f.Decls {
		line := nearMiss[r.Intn(len(nearMiss))]
		if r.Intn(100) >= 7 {
			continue
		}
		switch {
		case d.Tok == "func":
			s := d.Specs[0].Sides[0]
			if !s.Linkname {
				s.Doc = append(s.Doc, line)
			}
		case d.Paren && r.Intn(2) == 0:
			sp := d.Specs[r.Intn(len(d.Specs))]
			sp.Doc = append(sp.Doc, line)
		default:
			d.Doc = append(d.Doc, line)
		}
	}
}

var importPool = []string{"math", "strconv", "errors", "sort", "unicode/utf8", "math/bits", "sync", "embed", "unsafe"}

func (g *gen) imports(f *MFile) {
	r := g.r
	k := g.pick(2, 3, 3, 2)
	perm := r.Perm(len(importPool))
	for _, pi := range perm {
		if k == 0 {
			break
		}
		p := importPool[pi]
		if f.imp(p) != nil {
			continue
		}
		k--
		im := &MImport{Path: p}
		switch p {
		case "unsafe":
			im.Form = []string{"default", "blank"}[g.pick(70, 30)]
		case "embed":
			im.Form = []string{"default", "blank"}[g.pick(50, 50)]
		default:
			im.Form = []string{"default", "alias", "blank", "dot"}[g.pick(50, 20, 12, 18)]
			im.Alias = "x" + pathBase(p)
		}
		f.Imports = append(f.Imports, im)
	}
	r.Shuffle(len(f.Imports), func(i, j int) { f.Imports[i], f.Imports[j] = f.Imports[j], f.Imports[i] })
	f.ImportBlock = r.Intn(2) == 0
}

func (g *gen) comments(f *MFile) {
	r := g.r
	if r.Intn(10) < 3 {
		f.Header = []string{"// Copyright: generated file " + f.Name}
	}
	if r.Intn(10) < 3 {
		f.PkgDoc = []string{"// Package p is a generated package."}
	}
	for i := 0; i <= len(f.Decls); i++ {
		if r.Intn(10) < 2 {
			f.Floating[i] = []string{"// a free-floating comment"}
		}
	}
}

// host returns where in s the import could be referenced ("" = nowhere).
func (g *gen) host(s *ESide, im *MImport) string {
	unsafe, embed := im.Path == "unsafe", im.Path == "embed"
	switch s.Kind {
	case "func", "method":
		if s.Ent.Name == "init" {
			if embed {
				return ""
			}
			return "body"
		}
		if s.Side == sideOver && s.Ent.Dir == dirSig && s.Ent.Origin == oBoth {
			// the signature is transplanted into the original file: it may only refer to
			// what that file imports under the same name
			of := s.Ent.S[sideOrig].file
			oi := of.imp("unsafe")
			if unsafe && im.Form == "default" && oi != nil && oi.Form == "default" {
				return "sig"
			}
			if s.NoBody || embed {
				return ""
			}
			return "body"
		}
		if s.NoBody || embed || g.r.Intn(10) < 3 {
			return "sig"
		}
		return "body"
	case "type":
		switch s.TypeKind {
		case "struct", "alias":
			return "field"
		case "iface":
			if unsafe || embed {
				return ""
			}
			return "iface"
		}
	case "var":
		if s.NoValue || s.spec.NoVal || s.Embed || embed || (unsafe && s.spec.Call) {
			return ""
		}
		return "value"
	case "const":
		if unsafe || embed || s.decl.Iota {
			return ""
		}
		return "const"
	}
	return ""
}

func (s *ESide) usesImp(im *MImport) bool {
	for _, u := range s.Uses {
		if u.Imp == im {
			return true
		}
	}
	return false
}

func (g *gen) uses(f *MFile) {
	r := g.r
	sides := f.sides()
	if len(sides) == 0 {
		return
	}
	for _, im := range f.Imports {
		if im.Form == "blank" {
			continue
		}
		for n := 1 + r.Intn(2); n > 0; n-- {
			s := sides[r.Intn(len(sides))]
			if s.usesImp(im) {
				continue
			}
			if w := g.host(s, im); w != "" {
				s.Uses = append(s.Uses, Use{Imp: im, Where: w, Form: r.Intn(1 << 12)})
			}
		}
	}
	for _, s := range sides {
		if (s.Kind == "func" || s.Kind == "method") && !s.NoBody && r.Intn(100) < 15 && len(f.Imports) > 0 {
			im := f.Imports[r.Intn(len(f.Imports))]
			if (im.Form == "default" || im.Form == "alias") && !s.usesImp(im) && im.Path != "embed" {
				s.Shadow = append(s.Shadow, Shadow{Imp: im, Form: r.Intn(4)})
			}
		}
	}
}

// fixImports makes the input consistent: an import nobody refers to is not a valid input
// (unless it is blank). Also used after shrinking.
func fixImports(f *MFile, blankIt func() bool) {
	sides := f.sides()
	hasLink, hasEmbed := false, false
	for _, s := range sides {
		hasLink = hasLink || s.Linkname
		hasEmbed = hasEmbed || s.Embed
	}
	var keep []*MImport
	for _, im := range f.Imports {
		users := 0
		for _, s := range sides {
			if s.usesImp(im) {
				users++
			}
		}
		if im.Form != "blank" && users == 0 {
			switch {
			case im.Path == "unsafe" && hasLink, im.Path == "embed" && hasEmbed:
				im.Form = "blank"
			case blankIt():
				im.Form = "blank"
			default:
				for _, s := range sides { // shadows of a vanished import are plain locals; drop them
					var sh []Shadow
					for _, x := range s.Shadow {
						if x.Imp != im {
							sh = append(sh, x)
						}
					}
					s.Shadow = sh
				}
				continue
			}
		}
		keep = append(keep, im)
	}
	f.Imports = keep
	// a blank-imported package has no local name to shadow
	for _, s := range sides {
		var sh []Shadow
		for _, x := range s.Shadow {
			if x.Imp.Form != "blank" {
				sh = append(sh, x)
			}
		}
		s.Shadow = sh
	}
}

// fixDots: a dot import that loses all its users in a file that keeps other declarations is an
// inconsistent input (the merged file would have an unused dot import, which the documentation
// says is kept). Such imports are turned into blank imports.
func (m *Model) fixDots() {
	m.link()
	_, fate := m.fates()
	for side := 0; side < 2; side++ {
		for _, f := range m.Files[side] {
			alive := aliveFn(side, fate)
			survivors := 0
			for _, s := range f.sides() {
				if alive(s) {
					survivors++
				}
			}
			for _, im := range f.Imports {
				if im.Form != "dot" {
					continue
				}
				ok := false
				for _, s := range f.sides() {
					for _, u := range s.Uses {
						live := alive(s)
						if s.spec.Call {
							for _, x := range s.spec.Sides {
								live = live || alive(x)
							}
						}
						if u.Imp == im && live && !(fate[s] == "sig" && u.Where == "sig") {
							ok = true
						}
					}
				}
				if !ok && survivors > 0 {
					im.Form = "blank"
					for _, s := range f.sides() {
						var us []Use
						for _, u := range s.Uses {
							if u.Imp != im {
								us = append(us, u)
							}
						}
						s.Uses = us
					}
				}
			}
		}
	}
}

// grouping labels one side of an entity for the evidence histogram.
func (s *ESide) grouping() string {
	if s == nil {
		return "-"
	}
	if s.Kind == "func" || s.Kind == "method" {
		g := "own"
		if s.Recv != nil {
			g = "val"
			if s.Recv.Ptr {
				g = "ptr"
			}
			if len(s.Recv.TArgs) > 0 {
				g += "-generic"
			}
		} else if s.Sig.NT > 0 {
			g = "generic"
		}
		if s.NoBody {
			g += "-nobody"
		}
		return g
	}
	g := "own"
	if s.decl.Paren {
		g = "grp"
	}
	switch {
	case s.decl.Iota:
		g += "-iota"
		if s.Ent.Name == "_" {
			g += "-blank"
		}
	case s.spec.Call:
		g += "-call"
	case s.spec.NoVal:
		g += "-noval"
	case len(s.spec.Sides) > 1:
		g += "-multi"
	}
	if s.spec.Type != "" || s.Typed {
		g += "-typed"
	}
	switch {
	case s.NoValue:
		g += "-novalue"
	case len(s.spec.Sides) > 1 && s.spec.allBlank():
		g += "-allblank"
	case s.Ent.Name != "_" && s.spec.anyBlank():
		g += "-placeholder"
	}
	if s.decl.Purge {
		g += "@decl"
	} else if s.spec.Purge {
		g += "@spec"
	}
	return g
}

func (e *Ent) label() string {
	kind := e.Kind
	if e.S[sideOver] != nil && e.S[sideOrig] != nil && e.S[sideOver].Kind != e.S[sideOrig].Kind {
		kind += ">" + e.S[sideOver].Kind
	}
	dir := e.Dir
	if dir == "" {
		dir = "none"
	}
	return fmt.Sprintf("%s/%s/%s/%s/%s", kind, []string{"", "original", "overlay", "both"}[e.Origin], dir, e.S[sideOrig].grouping(), e.S[sideOver].grouping())
}

// ---------------------------------------------------------------- shrinking

// remove deletes entities (and the methods of deleted types) from the model in place and
// re-establishes input consistency. It reports false if the removal is not a valid shrink.
func (m *Model) remove(drop map[*Ent]bool) bool {
	for _, e := range m.Ents {
		if e.Kind == "method" {
			for d := range drop {
				if d.Kind == "type" && d.Name == e.Recv {
					drop[e] = true
				}
			}
		}
	}
	for side := 0; side < 2; side++ {
		for _, f := range m.Files[side] {
			var nd []*MDecl
			for _, d := range f.Decls {
				var ns []*MSpec
				for _, sp := range d.Specs {
					var keep []*ESide
					for _, s := range sp.Sides {
						if !drop[s.Ent] {
							keep = append(keep, s)
						}
					}
					if len(keep) == 0 {
						continue
					}
					if sp.Call && len(keep) < 2 {
						return false
					}
					sp.Sides = keep
					ns = append(ns, sp)
				}
				if len(ns) > 0 {
					d.Specs = ns
					nd = append(nd, d)
				}
			}
			f.Decls = nd
			f.Floating = map[int][]string{}
		}
	}
	var ents []*Ent
	for _, e := range m.Ents {
		if !drop[e] {
			ents = append(ents, e)
		}
	}
	m.Ents = ents
	m.link()
	for side := 0; side < 2; side++ {
		for _, f := range m.Files[side] {
			if f.Raw == "" {
				fixImports(f, func() bool { return false })
			}
		}
	}
	m.fixDots()
	return true
}
