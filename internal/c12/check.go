// Package c12 monitors property C12: standard-library overlays merge exactly as the
// directives say (doc/pargma.md).
package c12

import (
	"bytes"
	"fmt"
	"go/ast"
	"go/parser"
	"go/printer"
	"go/token"
	"go/types"
	"sort"
	"strings"
	"sync"

	"github.com/gopherjs/gopherjs/build"

	"verif/internal/core"
)

// Symptom is one refuting event observed on a pair.
type Symptom struct {
	Class  string // panic | files | typecheck | decls | order | imports | imports-desync | printed-*
	Detail string
}

// PairResult is the outcome of checking one generated pair.
type PairResult struct {
	Mishap   string // generator produced an inconsistent pair ("" = fine): inconclusive, never a violation
	Symptoms []Symptom
	Files    map[string]string // replay bundle
	Emptied  int               // files that lost all their declarations
	// imports of pruned files referenced only below another selector (pkg.New().Len(), pkg.V.F, ...)
	NestedOnly int
	// all-blank single-value specs (var _, _ = f(); var _ T) of original files next to overrides
	BlankSingle int
}

var stubs = newStubImporter()

func parseAll(fset *token.FileSet, names []string, texts map[string]string, prefix string) ([]*ast.File, error) {
	var out []*ast.File
	for _, n := range names {
		f, err := parser.ParseFile(fset, prefix+n, texts[n], parser.ParseComments)
		if err != nil {
			return nil, err
		}
		out = append(out, f)
	}
	return out, nil
}

func typeCheck(fset *token.FileSet, files []*ast.File) (info *types.Info, errs []string, panicked string) {
	info = &types.Info{Defs: map[*ast.Ident]types.Object{}}
	conf := types.Config{Importer: stubs, Error: func(err error) { errs = append(errs, err.Error()) }}
	defer func() {
		if r := recover(); r != nil {
			panicked = fmt.Sprint(r)
		}
	}()
	conf.Check("p", fset, files, info)
	return
}

func stripVal(ts []Tuple) []Tuple {
	out := make([]Tuple, len(ts))
	for i, t := range ts {
		t.Val = ""
		out[i] = t
	}
	return out
}

func tupleStrings(ts []Tuple) []string {
	out := make([]string, len(ts))
	for i, t := range ts {
		out[i] = t.String()
	}
	return out
}

func sortedCopy(s []string) []string {
	c := append([]string{}, s...)
	sort.Strings(c)
	return c
}

// compareFile compares the reduction of one merged file with the expectation.
func compareFile(class string, exp FileRed, expChecked bool, got FileRed, withVal bool) []Symptom {
	var out []Symptom
	e, g := exp.Ents, got.Ents
	if !withVal {
		e, g = stripVal(e), stripVal(g)
	}
	es, gs := tupleStrings(e), tupleStrings(g)
	if !sameStrings(es, gs) {
		if sameStrings(sortedCopy(es), sortedCopy(gs)) {
			out = append(out, Symptom{class + "order", fmt.Sprintf("%s: declarations reordered\n  expected: %s\n  observed: %s", exp.Name, strings.Join(es, "\n            "), strings.Join(gs, "\n            "))})
		} else {
			missing, extra := diffStrings(es, gs)
			out = append(out, Symptom{class + "decls", fmt.Sprintf("%s: declaration multiset differs\n  expected but absent: %s\n  present but not expected: %s",
				exp.Name, strings.Join(missing, "\n      "), strings.Join(extra, "\n      "))})
		}
	}
	if expChecked && !sameStrings(exp.DeclImports, got.DeclImports) {
		out = append(out, Symptom{class + "imports", fmt.Sprintf("%s: imports differ\n  expected: %v\n  observed: %v", exp.Name, exp.DeclImports, got.DeclImports)})
	}
	if !sameStrings(exp.ListDirs, got.ListDirs) {
		out = append(out, Symptom{class + "directive-comments", fmt.Sprintf("%s: //go: directive comments in file.Comments differ\n  expected: %q\n  observed: %q", exp.Name, exp.ListDirs, got.ListDirs)})
	}
	if !sameStrings(sortedCopy(got.DeclImports), sortedCopy(got.ListImports)) {
		out = append(out, Symptom{class + "imports-desync", fmt.Sprintf("%s: import declarations %v but file.Imports %v", exp.Name, got.DeclImports, got.ListImports)})
	}
	return out
}

// CheckPair renders the model, computes the expectation, runs the real augmentation on the
// parsed texts and compares.
func CheckPair(m *Model) (res PairResult) {
	res.Files = map[string]string{}
	texts := [2]map[string]string{{}, {}}
	var names [2][]string
	for side := 0; side < 2; side++ {
		for _, f := range m.Files[side] {
			t := f.text()
			texts[side][f.Name] = t
			names[side] = append(names[side], f.Name)
			res.Files[[]string{"testdata/original/", "testdata/overlay/"}[side]+f.Name] = t
		}
	}
	exp := m.expect()
	for _, ef := range exp {
		res.Files["testdata/expected/"+ef.Name] = ef.Text
		if ef.Touched && ef.Survivors == 0 {
			res.Emptied++
		}
		res.NestedOnly += ef.NestedOnly
		res.BlankSingle += ef.BlankSingle
	}
	checkTexts(m.ImportPath, names, texts, exp, &res)
	return
}

// checkTexts is the model-independent core: given both inputs and the expected merged files
// (as source text), run the real augmentation and compare. names[side] are file names in
// input order; exp lists the expected files, overlay files first.
func checkTexts(importPath string, names [2][]string, texts [2]map[string]string, exp []ExpFile, resp *PairResult) {
	res := *resp
	res.Mishap, res.Symptoms = "", nil
	defer func() { *resp = res }()
	expTexts := map[string]string{}
	var expNames []string
	for _, ef := range exp {
		expTexts[ef.Name] = ef.Text
		expNames = append(expNames, ef.Name)
	}
	res.Files["IMPORTPATH"] = importPath + "\n"

	// the expectation must be a well-formed package, otherwise the generator made a mistake
	efset := token.NewFileSet()
	expASTs, err := parseAll(efset, expNames, expTexts, "")
	if err != nil {
		res.Mishap = "expected-unparsable: " + err.Error()
		return
	}
	einfo, eerrs, epanic := typeCheck(efset, expASTs)
	if epanic != "" || len(eerrs) > 0 {
		res.Mishap = "expected-does-not-typecheck: " + strings.Join(eerrs, "; ") + epanic
		return
	}
	var expRed []FileRed
	for i, f := range expASTs {
		expRed = append(expRed, reduceFile(efset, expNames[i], f, einfo))
	}

	// second opinion: the rule evaluator applied to the parsed inputs
	vfset := token.NewFileSet()
	vOver, err1 := parseAll(vfset, names[sideOver], texts[sideOver], "overlay/")
	vOrig, err2 := parseAll(vfset, names[sideOrig], texts[sideOrig], "original/")
	if err1 != nil || err2 != nil {
		res.Mishap = fmt.Sprintf("input-unparsable: %v %v", err1, err2)
		return
	}
	pred, _ := evalMerge(vfset, vOver, vOrig)
	for i := range pred {
		a, b := tupleStrings(stripVal(expRed[i].Ents)), tupleStrings(pred[i])
		if !sameStrings(a, b) {
			res.Mishap = fmt.Sprintf("oracle-disagreement in %s: model says\n  %s\nevaluator says\n  %s", expNames[i], strings.Join(a, "\n  "), strings.Join(b, "\n  "))
			return
		}
	}

	// observation
	fset := token.NewFileSet()
	over, _ := parseAll(fset, names[sideOver], texts[sideOver], "overlay/")
	orig, _ := parseAll(fset, names[sideOrig], texts[sideOrig], "original/")
	var merged []*ast.File
	func() {
		defer func() {
			if r := recover(); r != nil {
				res.Symptoms = append(res.Symptoms, Symptom{"panic", fmt.Sprintf("augmentation panicked: %v", r)})
			}
		}()
		merged = build.VerifAugment(importPath, over, orig)
	}()
	if merged == nil {
		return
	}
	wantOrder := append(append([]*ast.File{}, over...), orig...)
	if len(merged) != len(wantOrder) {
		res.Symptoms = append(res.Symptoms, Symptom{"files", fmt.Sprintf("%d files in, %d files out", len(wantOrder), len(merged))})
		return
	}
	for i := range merged {
		if merged[i] != wantOrder[i] {
			res.Symptoms = append(res.Symptoms, Symptom{"files", fmt.Sprintf("file %d of the result is not input file %d (overlay files first, then original files)", i, i)})
			return
		}
	}
	printed := map[string]string{}
	func() {
		defer func() {
			if r := recover(); r != nil {
				res.Symptoms = append(res.Symptoms, Symptom{"panic", fmt.Sprintf("merged AST is malformed (walking it panicked): %v", r)})
			}
		}()
		info, terrs, tpanic := typeCheck(fset, merged)
		if tpanic != "" {
			res.Symptoms = append(res.Symptoms, Symptom{"typecheck", "type checker panicked on the merged package: " + tpanic})
			info = nil
		} else if len(terrs) > 0 {
			res.Symptoms = append(res.Symptoms, Symptom{"typecheck", "merged package does not type-check: " + strings.Join(terrs, "; ")})
			info = nil
		}
		var direct []Symptom
		for i, f := range merged {
			var b bytes.Buffer
			printer.Fprint(&b, fset, f)
			printed[expNames[i]] = b.String()
			res.Files["testdata/observed/"+expNames[i]] = b.String()
			got := reduceFile(fset, expNames[i], f, info)
			direct = append(direct, compareFile("", expRed[i], exp[i].ImportsChecked, got, info != nil)...)
		}
		res.Symptoms = append(res.Symptoms, direct...)
		if len(res.Symptoms) > 0 {
			return
		}
		// the printed form of the merged files must say the same
		for i := range merged {
			if exp[i].Transplant {
				// a signature moved in from another file carries foreign positions; go/printer
				// places comments by position, so the printed form is not meaningful here
				continue
			}
			synthetic := false
			for _, imp := range merged[i].Imports {
				if imp != nil && imp.Name != nil && imp.Name.Name == "_" && !imp.Name.NamePos.IsValid() {
					synthetic = true
				}
			}
			if synthetic {
				// pruneImports keeps a directive-bearing import (unsafe, embed) as `_ "embed"` with
				// an identifier that has no position; go/printer then places the comments that
				// follow the import block by position inside it. The AST-level comparison above
				// already checked the directives of every declaration, the printed form says
				// nothing more here (found by the thorough tier: 2 of 224085 pairs; false alarm
				// of this secondary oracle, not a defect of the merge).
				continue
			}
			pf := token.NewFileSet()
			f, err := parser.ParseFile(pf, expNames[i], printed[expNames[i]], parser.ParseComments)
			if err != nil {
				res.Symptoms = append(res.Symptoms, Symptom{"printed-unparsable", expNames[i] + ": " + err.Error()})
				continue
			}
			got := reduceFile(pf, expNames[i], f, nil)
			res.Symptoms = append(res.Symptoms, compareFile("printed-", expRed[i], exp[i].ImportsChecked, got, false)...)
		}
	}()
	return
}

// pairModel regenerates the model of pair (workload, index) and optionally removes entities.
func pairModel(c *core.Ctx, workload string, index int, dropIdx map[int]bool) *Model {
	m := Generate(c.Rand(fmt.Sprintf("%s/%d", workload, index)), workload)
	if len(dropIdx) > 0 {
		drop := map[*Ent]bool{}
		for i, e := range m.Ents {
			if dropIdx[i] {
				drop[e] = true
			}
		}
		if !m.remove(drop) {
			return nil
		}
	}
	return m
}

func hasClass(r PairResult, class string) bool {
	if r.Mishap != "" {
		return false
	}
	for _, s := range r.Symptoms {
		if s.Class == class {
			return true
		}
	}
	return false
}

// shrink greedily removes entities while the same class of symptom is still observed.
func shrink(c *core.Ctx, workload string, index int, class string) (*Model, PairResult) {
	dropIdx := map[int]bool{}
	base := pairModel(c, workload, index, nil)
	n := len(base.Ents)
	for pass := 0; pass < 3; pass++ {
		progress := false
		for i := n - 1; i >= 0; i-- {
			if dropIdx[i] {
				continue
			}
			try := map[int]bool{i: true}
			// members of a single-call spec can only go together
			for _, sd := range base.Ents[i].S {
				if sd != nil && sd.spec != nil && sd.spec.Call {
					for j, e := range base.Ents {
						for _, x := range e.S {
							if x != nil && x.spec == sd.spec {
								try[j] = true
							}
						}
					}
				}
			}
			for k := range dropIdx {
				try[k] = true
			}
			m := pairModel(c, workload, index, try)
			if m == nil {
				continue
			}
			if r := CheckPair(m); hasClass(r, class) {
				dropIdx = try
				progress = true
			}
		}
		if !progress {
			break
		}
	}
	m := pairModel(c, workload, index, dropIdx)
	return m, CheckPair(m)
}

type witness struct {
	workload string
	index    int
	class    string
}

// Run is the C12 check.
func Run(c *core.Ctx) int {
	nMain := c.N(2000, 200000)
	type wl struct {
		name string
		n    int
	}
	workloads := []wl{{"main", nMain}, {"iota", nMain / 20}, {"blank", nMain / 20}, {"blankiota", nMain / 50}}

	var mu sync.Mutex
	hist := map[string]int{}
	useHist := map[string]int{}
	pairs, mishaps, emptied, entities, nestedOnly, blankSingle := 0, 0, 0, 0, 0, 0
	classCount := map[string]int{}
	var witnesses []witness
	mishapSamples := []string{}

	for _, w := range workloads {
		w := w
		const chunk = 50
		nChunks := (w.n + chunk - 1) / chunk
		c.Parallel(nChunks, func(ci int) {
			localHist := map[string]int{}
			localUse := map[string]int{}
			lp, lm, le, lent, lno, lbs := 0, 0, 0, 0, 0, 0
			var lw []witness
			var lms []string
			for i := ci * chunk; i < (ci+1)*chunk && i < w.n; i++ {
				m := pairModel(c, w.name, i, nil)
				r := CheckPair(m)
				if r.Mishap != "" {
					lm++
					if len(lms) < 2 {
						lms = append(lms, fmt.Sprintf("%s/%d: %s", w.name, i, r.Mishap))
					}
					continue
				}
				lp++
				le += r.Emptied
				lno += r.NestedOnly
				lbs += r.BlankSingle
				for _, e := range m.Ents {
					localHist[e.label()]++
					lent++
					for _, s := range e.S {
						if s != nil {
							for _, u := range s.Uses {
								localUse[u.label()]++
							}
						}
					}
				}
				seen := map[string]bool{}
				for _, s := range r.Symptoms {
					if !seen[s.Class] {
						seen[s.Class] = true
						lw = append(lw, witness{w.name, i, s.Class})
					}
				}
			}
			mu.Lock()
			pairs += lp
			mishaps += lm
			emptied += le
			entities += lent
			nestedOnly += lno
			blankSingle += lbs
			for k, v := range localHist {
				hist[k] += v
			}
			for k, v := range localUse {
				useHist[k] += v
			}
			for _, x := range lw {
				classCount[x.workload+"."+x.class]++
				witnesses = append(witnesses, x)
			}
			if len(mishapSamples) < 5 {
				mishapSamples = append(mishapSamples, lms...)
			}
			mu.Unlock()
		})
	}
	c.Count("pairs_checked", pairs)
	c.Count("entities", entities)
	c.Count("files_emptied_by_merge", emptied)
	c.Count("imports_of_pruned_files_referenced_only_below_a_selector", nestedOnly)
	c.Count("all_blank_single_value_specs_in_originals_next_to_overrides", blankSingle)
	c.Count("distinct_import_reference_shapes", len(useHist))
	for k, v := range classCount {
		c.Count("violating_pairs/"+k, v)
	}
	for i := 0; i < mishaps; i++ {
		c.Inconclusive("generator-mishap")
	}
	for _, s := range mishapSamples {
		fmt.Println("generator mishap:", s)
	}

	// report the first witnesses of every (workload, symptom class), shrunk
	sort.Slice(witnesses, func(i, j int) bool {
		a, b := witnesses[i], witnesses[j]
		if a.workload != b.workload {
			return a.workload < b.workload
		}
		if a.class != b.class {
			return a.class < b.class
		}
		return a.index < b.index
	})
	reported := map[string]int{}
	for _, w := range witnesses {
		k := w.workload + "." + w.class
		if reported[k] >= 2 {
			continue
		}
		reported[k]++
		m, r := shrink(c, w.workload, w.index, w.class)
		var what strings.Builder
		fmt.Fprintf(&what, "generated pair %s/%d (shrunk to %d entities), import path %q: ", w.workload, w.index, len(m.Ents), m.ImportPath)
		for _, s := range r.Symptoms {
			fmt.Fprintf(&what, "[%s] %s\n", s.Class, s.Detail)
		}
		r.Files["replay.sh"] = "# (files live under testdata/ so that the go tool ignores them)\n# prints the merged files produced by the real augmentation functions\ncd /verif && go run -tags 'verif vp_c12' ./cmd/vp c12-augment \"$(cat $(dirname $0)/IMPORTPATH)\" $(dirname $0)/testdata/overlay $(dirname $0)/testdata/original\n"
		c.Violate(fmt.Sprintf("%s.%s.s%d.%d", w.workload, w.class, c.Seed, w.index), what.String(), r.Files)
	}

	// samples: actual generated pairs
	for i := 0; i < 2; i++ {
		m := pairModel(c, "main", i, nil)
		var labels []string
		for _, e := range m.Ents {
			labels = append(labels, e.key()+":"+e.label())
		}
		c.Sample(map[string]any{"pair": fmt.Sprintf("main/%d", i), "import_path": m.ImportPath, "entities": labels})
	}

	nSent := runSentinels(c)
	std := runStd(c)

	distinct := len(hist)
	top := map[string]int{}
	for k, v := range hist {
		parts := strings.SplitN(k, "/", 4)
		top[strings.Join(parts[:3], "/")] += v
	}
	extra := map[string]any{
		"histogram_kind_origin_directive":  top,
		"distinct_kind_origin_directive":   len(top),
		"distinct_full_combinations":       distinct,
		"histogram_import_reference_shape": useHist,
		"std":                              std,
	}
	evaluations := pairs + std.Compared + nSent
	return c.Finish("exploration", evaluations, distinct, 150,
		"pairs (original files, overlay files) rendered from a declarative model; the expected merged package is computed from the model with the rules of doc/pargma.md and compared (per file: ordered entity tuples (kind,key,body,signature,go-directives,const value), import lists, file order) with what the real augmentOverlayFile/augmentOriginalFile/pruneImports produce; merged package type-checked; printed form re-parsed and compared; plus every overlay-bearing std package through the real Session.LoadPackages vs the hook replica vs an independent rule evaluator. References to imported packages are drawn from a table of syntactic shapes (uses.go: plain qualified identifiers, operands of further selectors/calls/indexes, type arguments, composite literals, array lengths, embedded fields, interface elements, closures, defer/go, locals and parameters shadowing the import name); value specs cover names==values, one call for several names, several names sharing a type without values, each of them typed/untyped, grouped/ungrouped, with blank names as placeholders or as the only names (workload blank), positional constant groups with blank placeholders (workload iota) and with blank names only (workload blankiota). distinct_nontrivial = distinct (kind, origin, directive, grouping-original, grouping-overlay) combinations of generated entities",
		extra, []string{
			"the documented rules are those of doc/pargma.md plus the property statement; init functions never override, the blank identifier is not a name",
			"a blank name that owns a value (names==values) is a declaration of its own and stays; blank names of a single-value spec or of a positional constant group are placeholders that go with the last named one; a spec or positional group that never had a named one is unrelated to every override and stays",
			"imports of a file that lost all its declarations are not compared (the documentation is silent; the code drops them all)",
			"list of packages with sync->nosync substitution is copied from build/build.go",
			"std cross-check compares syntax only (GOROOT is go1.23, overlays target go1.20)",
		})
}
