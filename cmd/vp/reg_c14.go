//go:build vp_all || vp_c14

package main

import "verif/internal/c14"

func init() { checks["C14"] = c14.Run }
