//go:build vp_all || vp_c17

package main

import "verif/internal/c17"

func init() { checks["C17"] = c17.Run }
