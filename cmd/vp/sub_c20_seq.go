//go:build vp_all || vp_c20

package main

import (
	"crypto/sha256"
	"encoding/hex"
	"fmt"
	"net/http"
	"os"
	"path/filepath"
	"runtime/debug"
	"sort"
	"strings"
	"time"

	gbuild "github.com/gopherjs/gopherjs/build"
	"github.com/gopherjs/gopherjs/build/cache"
	"github.com/gopherjs/gopherjs/compiler"
	"github.com/gopherjs/gopherjs/compiler/gopherjspkg"

	"verif/internal/c20/cw"
)

// `vp c20-seq <job.json>`: one scenario of the end-to-end staleness sweep. The child replays a
// script of file-system edits and builds against ONE cache directory. Every build step is
// executed twice, each time by a fresh build.Session exactly as the gopherjs tool drives it
// (BuildFiles for ad-hoc file lists; Import + BuildProject + WriteCommandPackage for packages):
// once with the real *cache.BuildCache installed through the verif hook, once without any
// cache. The parent compares the two outputs; the child only reports.
//
// The process environment (GOPATH, GO111MODULE=off, XDG_CACHE_HOME) is set by the parent.

func c20SeqSession(cached bool, scratch string, st cw.SeqStep) (*gbuild.Session, *c20Recorder, error) {
	opts := &gbuild.Options{NoCache: true, Quiet: true, BuildTags: append([]string{}, st.Tags...), Minify: st.Minify}
	s, err := gbuild.NewSession(opts)
	if err != nil {
		return nil, nil, err
	}
	if !cached {
		return s, nil, nil
	}
	cw.Guard(scratch)
	env := s.XContext().Env()
	// exactly the configuration NewSession sets up when the default cache is not compiled out
	rec := &c20Recorder{inner: &cache.BuildCache{
		GOOS:      env.GOOS,
		GOARCH:    env.GOARCH,
		GOROOT:    env.GOROOT,
		GOPATH:    env.GOPATH,
		BuildTags: append([]string{}, env.BuildTags...),
		Version:   compiler.Version,
	}}
	s.VerifSetBuildCache(rec)
	return s, rec, nil
}

// c20SeqBuildOnce runs one session; a panic of the compiler is an error of that build.
func c20SeqBuildOnce(cached bool, job *cw.SeqJob, st cw.SeqStep, out string) (rec *c20Recorder, err error) {
	defer func() {
		if r := recover(); r != nil {
			err = fmt.Errorf("panic: %v\n%s", r, tailBytes(debug.Stack(), 1500))
		}
	}()
	os.Remove(out)
	s, rec, err := c20SeqSession(cached, job.Scratch, st)
	if err != nil {
		return rec, err
	}
	cwd := filepath.Join(job.Root, st.Dir)
	switch st.Kind {
	case "files":
		// the tool passes the arguments as given, relative to the current directory; the child
		// cannot chdir per step, so they are made absolute (BuildFiles accepts both)
		var names []string
		for _, f := range st.Files {
			names = append(names, filepath.Join(cwd, f))
		}
		return rec, s.BuildFiles(names, out, cwd)
	case "pkg":
		pkg, err := s.XContext().Import(st.ImportPath, cwd, 0)
		if err != nil {
			return rec, err
		}
		archive, err := s.BuildProject(pkg)
		if err != nil {
			return rec, err
		}
		return rec, s.WriteCommandPackage(archive, out)
	}
	return rec, fmt.Errorf("unknown build kind %q", st.Kind)
}

func tailBytes(b []byte, n int) string {
	if len(b) > n {
		b = b[len(b)-n:]
	}
	return string(b)
}

func c20Markers(js []byte) []string {
	seen := map[string]bool{}
	s := string(js)
	for {
		i := strings.Index(s, "c20v_")
		if i < 0 {
			break
		}
		j := i + 5
		for j < len(s) && (s[j] == '_' || s[j] >= '0' && s[j] <= '9' || s[j] >= 'a' && s[j] <= 'z' || s[j] >= 'A' && s[j] <= 'Z') {
			j++
		}
		seen[s[i:j]] = true
		s = s[j:]
	}
	var out []string
	for m := range seen {
		out = append(out, m)
	}
	sort.Strings(out)
	return out
}

func c20FirstDiff(a, b string) string {
	la, lb := strings.Split(a, "\n"), strings.Split(b, "\n")
	for i := 0; i < len(la) || i < len(lb); i++ {
		x, y := "<eof>", "<eof>"
		if i < len(la) {
			x = la[i]
		}
		if i < len(lb) {
			y = lb[i]
		}
		if x != y {
			return fmt.Sprintf("first difference at line %d:\n  without cache: %.240s\n  with cache:    %.240s", i+1, x, y)
		}
	}
	return "identical"
}

func c20Seq(args []string) int {
	var job cw.SeqJob
	cw.ReadJob(args[0], &job)
	cw.Guard(job.Scratch)
	gopherjspkg.RegisterFS(http.FS(os.DirFS(repoDir())))
	var out cw.SeqOut
	os.MkdirAll(job.OutDir, 0o755)
	// the reference output only depends on the tree and the build request: it is computed once
	// per (tree generation, request)
	type refRes struct {
		js  []byte
		err string
	}
	refs := map[string]refRes{}
	generation := 0
	for i, st := range job.Steps {
		switch st.Op {
		case "write", "remove":
			generation++
			p := filepath.Join(job.Root, st.Path)
			// The cache compares the modification time of the sources with the time.Now() of the
			// Store. File systems stamp files with a coarse clock that may lag the precise one by
			// a timer tick (up to 10 ms): wait longer than that, so that "edited after the build"
			// is also what the timestamps say.
			time.Sleep(30 * time.Millisecond)
			var err error
			if st.Op == "write" {
				os.MkdirAll(filepath.Dir(p), 0o755)
				err = os.WriteFile(p, []byte(st.Content), 0o644)
			} else {
				err = os.Remove(p)
			}
			if err != nil {
				out.Error = fmt.Sprintf("step %d: %v", i, err)
				cw.WriteResult(job.Out, out)
				return 0
			}
			time.Sleep(5 * time.Millisecond)
		case "build":
			b := cw.SeqBuild{Step: i}
			cachedOut := filepath.Join(job.OutDir, fmt.Sprintf("%02d.cached.js", i))
			refOut := filepath.Join(job.OutDir, fmt.Sprintf("%02d.ref.js", i))
			rec, err := c20SeqBuildOnce(true, &job, st, cachedOut)
			if err != nil {
				b.CachedErr = err.Error()
			}
			cjs, _ := os.ReadFile(cachedOut)
			if rec != nil {
				for _, e := range rec.Loads {
					if e.OK {
						b.LoadHits = append(b.LoadHits, e.ImportPath)
					} else {
						b.LoadMiss = append(b.LoadMiss, e.ImportPath)
					}
				}
				for _, e := range rec.Stores {
					if e.OK {
						b.StoreOK = append(b.StoreOK, e.ImportPath)
					} else {
						b.StoreFail = append(b.StoreFail, e.ImportPath)
					}
				}
				sort.Strings(b.LoadHits)
				sort.Strings(b.LoadMiss)
				sort.Strings(b.StoreOK)
				sort.Strings(b.StoreFail)
			}
			key := fmt.Sprintf("%d|%s|%s|%s|%q|%q|%v", generation, st.Kind, st.ImportPath, st.Dir, st.Files, st.Tags, st.Minify)
			ref, ok := refs[key]
			if !ok {
				_, err := c20SeqBuildOnce(false, &job, st, refOut)
				if err != nil {
					ref.err = err.Error()
				}
				ref.js, _ = os.ReadFile(refOut)
				refs[key] = ref
			} else {
				os.WriteFile(refOut, ref.js, 0o644)
			}
			b.RefErr = ref.err
			b.CachedBytes, b.RefBytes = len(cjs), len(ref.js)
			h1, h2 := sha256.Sum256(cjs), sha256.Sum256(ref.js)
			b.CachedSHA, b.RefSHA = hex.EncodeToString(h1[:8]), hex.EncodeToString(h2[:8])
			b.Equal = string(cjs) == string(ref.js)
			if !b.Equal {
				b.Diff = c20FirstDiff(string(ref.js), string(cjs))
			}
			b.CachedMarkers, b.RefMarkers = c20Markers(cjs), c20Markers(ref.js)
			out.Builds = append(out.Builds, b)
		default:
			out.Error = fmt.Sprintf("step %d: unknown op %q", i, st.Op)
			cw.WriteResult(job.Out, out)
			return 0
		}
	}
	cw.WriteResult(job.Out, out)
	return 0
}
