//go:build vp_all || vp_c04

package main

import "verif/internal/c04"

func init() { checks["C04"] = c04.Run }
