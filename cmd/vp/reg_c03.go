//go:build vp_all || vp_c03

package main

import "verif/internal/c03"

func init() { checks["C03"] = c03.Run }
