// Command vp is the single driver of the runtime-monitoring checks.
//
//	vp <property-id> quick|thorough     run one check (writes evidence/<id>.json)
//	vp compile …                       child: in-process build of one program (see compile.go)
package main

import (
	"fmt"
	"os"
	"sort"

	"verif/internal/core"
)

// registry of property checks; each check returns the process exit code.
var checks = map[string]func(*core.Ctx) int{}

func main() {
	if len(os.Args) < 2 {
		usage()
	}
	switch os.Args[1] {
	case "compile":
		os.Exit(compileMain(os.Args[2:]))
	}
	if sub, ok := subcommands[os.Args[1]]; ok {
		os.Exit(sub(os.Args[2:]))
	}
	f, ok := checks[os.Args[1]]
	if !ok {
		usage()
	}
	tier := "quick"
	if len(os.Args) > 2 {
		tier = os.Args[2]
	}
	ctx := core.NewCtx(os.Args[1], tier)
	os.Exit(f(ctx))
}

// further child sub-commands registered by check packages (cache workers etc.)
var subcommands = map[string]func([]string) int{}

func usage() {
	ids := []string{}
	for k := range checks {
		ids = append(ids, k)
	}
	sort.Strings(ids)
	fmt.Fprintf(os.Stderr, "usage: vp <id> quick|thorough; ids: %v\n", ids)
	os.Exit(2)
}
