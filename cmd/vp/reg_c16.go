//go:build vp_all || vp_c16

package main

import "verif/internal/c16"

func init() { checks["C16"] = c16.Run }
