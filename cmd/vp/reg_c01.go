//go:build vp_all || vp_c01

package main

import "verif/internal/c01"

func init() { checks["C01"] = c01.Run }
