//go:build vp_all || vp_c02

package main

import "verif/internal/c02"

func init() { checks["C02"] = c02.Run }
