//go:build vp_all || vp_c13

package main

import "verif/internal/c13"

func init() { checks["C13"] = c13.Run }
