//go:build vp_all || vp_c06

package main

import "verif/internal/c06"

func init() { checks["C06"] = c06.Run }
