package main

import "verif/internal/c06"

func init() { checks["C06"] = c06.Run }
