//go:build vp_all || vp_c18

package main

import (
	"encoding/json"
	"fmt"
	"net/http"
	"os"
	"path/filepath"
	"sort"

	gbuild "github.com/gopherjs/gopherjs/build"
	"github.com/gopherjs/gopherjs/compiler/gopherjspkg"

	"verif/internal/c18"
)

func init() { subcommands["c18-import"] = c18ImportMain }

// c18ImportMain is the API-level observation point of C18: for every job it creates the build
// context exactly as the tool does (build.NewBuildContext(installSuffix, tags)) and records what
// XContext.Import says about the package's files. No selection logic lives here.
//
//	vp c18-import jobs.json results.json
func c18ImportMain(args []string) int {
	if len(args) != 2 {
		fmt.Fprintln(os.Stderr, "usage: vp c18-import jobs.json results.json")
		return 2
	}
	b, err := os.ReadFile(args[0])
	if err != nil {
		fmt.Fprintln(os.Stderr, err)
		return 2
	}
	var jobs []c18.ImportJob
	if err := json.Unmarshal(b, &jobs); err != nil {
		fmt.Fprintln(os.Stderr, err)
		return 2
	}
	gopherjspkg.RegisterFS(http.FS(os.DirFS(repoDir())))
	var out []c18.ImportRes
	for _, j := range jobs {
		if err := os.Chdir(j.Dir); err != nil {
			fmt.Fprintln(os.Stderr, err)
			return 2
		}
		if j.GOOS != "" {
			os.Setenv("GOOS", j.GOOS)
		} else {
			os.Unsetenv("GOOS")
		}
		xctx := gbuild.NewBuildContext("", j.Tags)
		for _, p := range j.Paths {
			r := c18.ImportRes{ID: j.ID, Path: p}
			pkg, err := xctx.Import(p, j.Dir, 0)
			if err != nil {
				r.Err = err.Error()
			}
			if pkg != nil {
				r.Dir = pkg.Dir
				r.Goroot = pkg.Goroot
				r.Go = c18sorted(pkg.GoFiles)
				r.Test = c18sorted(pkg.TestGoFiles)
				r.XTest = c18sorted(pkg.XTestGoFiles)
				r.Cgo = c18sorted(pkg.CgoFiles)
				r.Ignored = c18sorted(pkg.IgnoredGoFiles)
				for _, f := range pkg.JSFiles {
					r.JS = append(r.JS, filepath.Base(f.Path))
				}
				sort.Strings(r.JS)
			}
			out = append(out, r)
		}
	}
	b, _ = json.Marshal(out)
	if err := os.WriteFile(args[1], b, 0o644); err != nil {
		fmt.Fprintln(os.Stderr, err)
		return 2
	}
	return 0
}

func c18sorted(in []string) []string {
	a := append([]string{}, in...)
	sort.Strings(a)
	return a
}
