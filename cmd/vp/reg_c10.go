//go:build vp_all || vp_c10

package main

import "verif/internal/c10"

func init() { checks["C10"] = c10.Run }
