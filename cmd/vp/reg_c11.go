//go:build vp_all || vp_c11

package main

import "verif/internal/c11"

func init() { checks["C11"] = c11.Run }
