//go:build vp_all || vp_c18

package main

import "verif/internal/c18"

func init() { checks["C18"] = c18.Run }
