//go:build vp_all || vp_c08

package main

import "verif/internal/c08"

func init() { checks["C08"] = c08.Run }
