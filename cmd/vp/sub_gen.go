//go:build vp_all || vp_c01 || vp_c02 || vp_c05 || vp_c16 || vp_c17

package main

import (
	"fmt"
	"math/rand"
	"os"
	"path/filepath"
	"strconv"

	"verif/internal/core"
	"verif/internal/progen"
)

// `vp gen <seed> <dir> [yield]` writes one generated program (debugging aid).
func init() {
	subcommands["gen"] = func(args []string) int {
		seed, _ := strconv.ParseInt(args[0], 10, 64)
		r := rand.New(rand.NewSource(seed))
		p := progen.Generate(r, progen.Options{Cases: 12, StmtsPer: 10, BoxStruct: true, Yield: len(args) > 2})
		os.MkdirAll(args[1], 0o755)
		core.WriteFiles(args[1], p.Files)
		fmt.Println(filepath.Join(args[1], "main.go"), p.Stats)
		return 0
	}
}
