//go:build vp_all || vp_c09

package main

import "verif/internal/c09"

func init() { checks["C09"] = c09.Run }
