//go:build vp_all || vp_c17

package main

import (
	"bytes"
	"crypto/sha256"
	"fmt"
	"net/http"
	"os"
	"strconv"
	"sync"

	gbuild "github.com/gopherjs/gopherjs/build"
	"github.com/gopherjs/gopherjs/compiler"
	"github.com/gopherjs/gopherjs/compiler/gopherjspkg"
)

func buildInSession(s *gbuild.Session, dir string) ([]byte, error) {
	if err := os.Chdir(dir); err != nil {
		return nil, err
	}
	xctx := gbuild.NewBuildContext(s.InstallSuffix(), nil)
	pkgs, err := xctx.Match([]string{"."})
	if err != nil || len(pkgs) != 1 {
		return nil, fmt.Errorf("match: %v %v", pkgs, err)
	}
	pkg, err := xctx.Import(pkgs[0], dir, 0)
	if err != nil {
		return nil, err
	}
	archive, err := s.BuildProject(pkg)
	if err != nil {
		return nil, err
	}
	deps, err := compiler.ImportDependencies(archive, s.ImportResolverFor(""))
	if err != nil {
		return nil, err
	}
	var buf bytes.Buffer
	if err := compiler.WriteProgramCode(deps, compiler.DefaultFilter(&buf), s.GoRelease()); err != nil {
		return nil, err
	}
	return buf.Bytes(), nil
}

func init() {
	// c17-seq <out> <dir>... : builds the projects one after the other in ONE session and
	// writes the output of the last one to <last dir>/<out>.
	subcommands["c17-seq"] = func(args []string) int {
		gopherjspkg.RegisterFS(http.FS(os.DirFS(repoDir())))
		s, err := gbuild.NewSession(&gbuild.Options{NoCache: true})
		if err != nil {
			fmt.Fprintln(os.Stderr, err)
			return 1
		}
		var last []byte
		for _, d := range args[1:] {
			last, err = buildInSession(s, d)
			if err != nil {
				fmt.Fprintln(os.Stderr, d, err)
				return 1
			}
		}
		if err := os.WriteFile(args[len(args)-1]+"/"+args[0], last, 0o644); err != nil {
			return 1
		}
		return 0
	}
	// c17-conc <n> <rounds>: n sessions build the project in the cwd concurrently.
	subcommands["c17-conc"] = func(args []string) int {
		n, _ := strconv.Atoi(args[0])
		rounds, _ := strconv.Atoi(args[1])
		gopherjspkg.RegisterFS(http.FS(os.DirFS(repoDir())))
		dir, _ := os.Getwd()
		hashes := map[[32]byte]int{}
		var mu sync.Mutex
		failed := 0
		for r := 0; r < rounds; r++ {
			var wg sync.WaitGroup
			for i := 0; i < n; i++ {
				wg.Add(1)
				go func() {
					defer wg.Done()
					s, err := gbuild.NewSession(&gbuild.Options{NoCache: true})
					var out []byte
					if err == nil {
						out, err = buildInSession(s, dir)
					}
					mu.Lock()
					defer mu.Unlock()
					if err != nil {
						failed++
						fmt.Fprintln(os.Stderr, err)
						return
					}
					hashes[sha256.Sum256(out)]++
				}()
			}
			wg.Wait()
		}
		if failed > 0 {
			fmt.Println("CONC-FAILED", failed)
			return 1
		}
		if len(hashes) != 1 {
			fmt.Println("CONC-DIFF", len(hashes), "distinct outputs")
			return 0
		}
		fmt.Println("CONC-OK", n*rounds)
		return 0
	}
}
