//go:build vp_all || vp_c07

package main

import "verif/internal/c07"

func init() { checks["C07"] = c07.Run }
