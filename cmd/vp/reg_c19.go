//go:build vp_all || vp_c19

package main

import "verif/internal/c19"

func init() { checks["C19"] = c19.Run }
