package main

import (
	"encoding/json"
	"flag"
	"fmt"
	"net/http"
	"os"
	"path/filepath"
	"strings"

	gbuild "github.com/gopherjs/gopherjs/build"
	"github.com/gopherjs/gopherjs/compiler"
	"github.com/gopherjs/gopherjs/compiler/gopherjspkg"
)

// DeclDump is the API-level observation of one compiled declaration.
type DeclDump struct {
	Pkg      string `json:"pkg"`
	FullName string `json:"full_name"`
	Blocking bool   `json:"blocking"`
	Alive    bool   `json:"alive"`
	DCE      string `json:"dce"`
	FuncLen  int    `json:"func_len"`
	InitLen  int    `json:"init_len"`
}

// CompileDump is written by `vp compile -dump`.
type CompileDump struct {
	Packages []string            `json:"packages"`
	GoFiles  map[string][]string `json:"go_files"`
	Decls    []DeclDump          `json:"decls"`
}

func repoDir() string {
	if v := os.Getenv("VERIF_REPO"); v != "" {
		return v
	}
	return "/repo"
}

// compileMain is the in-process observation point of the build pipeline. It runs as a child
// process of the checks (cwd = program directory) so that a compiler crash cannot take the
// monitors down and so that many programs compile in parallel.
func compileMain(args []string) int {
	fs := flag.NewFlagSet("compile", flag.ExitOnError)
	out := fs.String("o", "out.js", "output file")
	minify := fs.Bool("minify", false, "")
	alive := fs.Bool("alive", false, "force every declaration alive before linking")
	mapf := fs.Bool("map", false, "write source map")
	tags := fs.String("tags", "", "comma separated build tags")
	pkgDir := fs.String("pkg", ".", "package directory")
	dump := fs.String("dump", "", "write API observations as JSON")
	files := fs.String("files", "", "comma separated files (ad-hoc package)")
	fs.Parse(args)

	gopherjspkg.RegisterFS(http.FS(os.DirFS(repoDir())))
	opts := &gbuild.Options{Minify: *minify, CreateMapFile: *mapf, NoCache: true}
	if *tags != "" {
		opts.BuildTags = strings.Split(*tags, ",")
	}
	s, err := gbuild.NewSession(opts)
	if err != nil {
		fmt.Fprintln(os.Stderr, err)
		return 1
	}
	cwd, _ := os.Getwd()
	if *files != "" {
		if err := s.BuildFiles(strings.Split(*files, ","), *out, cwd); err != nil {
			fmt.Fprintln(os.Stderr, err)
			return 1
		}
		return 0
	}
	xctx := gbuild.NewBuildContext(s.InstallSuffix(), opts.BuildTags)
	p := *pkgDir
	if !strings.HasPrefix(p, ".") && !filepath.IsAbs(p) {
		p = "./" + p
	}
	pkgs, err := xctx.Match([]string{p})
	if err != nil || len(pkgs) != 1 {
		fmt.Fprintln(os.Stderr, "cannot expand package pattern", p, pkgs, err)
		return 1
	}
	pkg, err := xctx.Import(pkgs[0], cwd, 0)
	if err != nil {
		fmt.Fprintln(os.Stderr, err)
		return 1
	}
	archive, err := s.BuildProject(pkg)
	if err != nil {
		fmt.Fprintln(os.Stderr, err)
		return 1
	}
	deps, err := compiler.ImportDependencies(archive, s.ImportResolverFor(""))
	if err != nil {
		fmt.Fprintln(os.Stderr, err)
		return 1
	}
	if *dump != "" {
		d := CompileDump{GoFiles: map[string][]string{}}
		for _, a := range deps {
			d.Packages = append(d.Packages, a.ImportPath)
			for _, dc := range a.Declarations {
				d.Decls = append(d.Decls, DeclDump{Pkg: a.ImportPath, FullName: dc.FullName, Blocking: dc.Blocking,
					Alive: strings.HasPrefix(dc.Dce().String(), "[alive]"), DCE: dc.Dce().String(), FuncLen: len(dc.FuncDeclCode), InitLen: len(dc.InitCode)})
			}
		}
		for _, srcs := range s.GetSortedSources() {
			for _, f := range srcs.Files {
				d.GoFiles[srcs.ImportPath] = append(d.GoFiles[srcs.ImportPath], filepath.Base(srcs.FileSet.Position(f.Pos()).Filename))
			}
		}
		b, _ := json.MarshalIndent(d, "", " ")
		os.WriteFile(*dump, b, 0o644)
	}
	if *alive {
		for _, a := range deps {
			for _, dc := range a.Declarations {
				dc.Dce().SetAsAlive()
			}
		}
	}
	if err := os.MkdirAll(filepath.Dir(*out), 0o777); err != nil {
		fmt.Fprintln(os.Stderr, err)
		return 1
	}
	codeFile, err := os.Create(*out)
	if err != nil {
		fmt.Fprintln(os.Stderr, err)
		return 1
	}
	defer codeFile.Close()
	filter := compiler.DefaultFilter(codeFile)
	if *mapf {
		s.EnableMapping(filter, filepath.Base(*out))
		mapFile, err := os.Create(*out + ".map")
		if err != nil {
			fmt.Fprintln(os.Stderr, err)
			return 1
		}
		defer func() {
			filter.WriteMappingTo(mapFile)
			mapFile.Close()
			fmt.Fprintf(codeFile, "//# sourceMappingURL=%s.map\n", filepath.Base(*out))
		}()
	}
	if err := compiler.WriteProgramCode(deps, filter, s.GoRelease()); err != nil {
		fmt.Fprintln(os.Stderr, err)
		return 1
	}
	return 0
}
