//go:build vp_all || vp_c05

package main

import "verif/internal/c05"

func init() { checks["C05"] = c05.Run }
