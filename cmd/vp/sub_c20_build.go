//go:build vp_all || vp_c20

package main

import (
	"flag"
	"fmt"
	"net/http"
	"os"
	"path/filepath"
	"sort"
	"strings"
	"sync"
	"time"

	gbuild "github.com/gopherjs/gopherjs/build"
	"github.com/gopherjs/gopherjs/build/cache"
	"github.com/gopherjs/gopherjs/compiler"
	"github.com/gopherjs/gopherjs/compiler/gopherjspkg"

	"verif/internal/c20/cw"
)

// c20Recorder wraps the real build cache of a session and records every call.
type c20Recorder struct {
	inner  cache.Cache
	mu     sync.Mutex
	Loads  []c20Event
	Stores []c20Event
}

type c20Event struct {
	ImportPath string
	OK         bool
}

func (r *c20Recorder) Store(c cache.Cacheable, importPath string, buildTime time.Time) bool {
	ok := r.inner.Store(c, importPath, buildTime)
	r.mu.Lock()
	r.Stores = append(r.Stores, c20Event{importPath, ok})
	r.mu.Unlock()
	return ok
}

func (r *c20Recorder) Load(c cache.Cacheable, importPath string, srcModTime time.Time) bool {
	ok := r.inner.Load(c, importPath, srcModTime)
	r.mu.Lock()
	r.Loads = append(r.Loads, c20Event{importPath, ok})
	r.mu.Unlock()
	return ok
}

// C20BuildStats is what `vp c20-build` reports about the cache traffic of one session.
type C20BuildStats struct {
	Mode               string
	LoadHits, LoadMiss []string
	StoreOK, StoreFail []string
	Packages           []string
	Error              string
}

func c20NewSession(mode, scratch string, tags []string, tested string) (*gbuild.Session, *c20Recorder, error) {
	gopherjspkg.RegisterFS(http.FS(os.DirFS(repoDir())))
	opts := &gbuild.Options{NoCache: true, BuildTags: tags, TestedPackage: tested}
	s, err := gbuild.NewSession(opts)
	if err != nil {
		return nil, nil, err
	}
	var rec *c20Recorder
	if mode != "none" {
		cw.Guard(scratch)
		env := s.XContext().Env()
		// exactly the configuration NewSession sets up when the default cache is not compiled out
		rec = &c20Recorder{inner: &cache.BuildCache{
			GOOS:          env.GOOS,
			GOARCH:        env.GOARCH,
			GOROOT:        env.GOROOT,
			GOPATH:        env.GOPATH,
			BuildTags:     append([]string{}, env.BuildTags...),
			TestedPackage: tested,
			Version:       compiler.Version,
		}}
		s.VerifSetBuildCache(rec)
	}
	return s, rec, nil
}

// c20Build compiles the package in the current directory like `vp compile`, with the session
// cache switched on through the verif hook (mode "on") or without any cache (mode "none").
func c20Build(args []string) int {
	fs := flag.NewFlagSet("c20-build", flag.ExitOnError)
	out := fs.String("o", "out.js", "output file")
	mode := fs.String("cache", "none", "on|none")
	statsFile := fs.String("stats", "", "write cache traffic as JSON")
	scratch := fs.String("scratch", "", "scratch dir the cache root must be below")
	tags := fs.String("tags", "", "comma separated build tags")
	fs.Parse(args)
	stats := C20BuildStats{Mode: *mode}
	fail := func(err error) int {
		fmt.Fprintln(os.Stderr, err)
		stats.Error = err.Error()
		if *statsFile != "" {
			cw.WriteResult(*statsFile, stats)
		}
		return 1
	}
	var tg []string
	if *tags != "" {
		tg = strings.Split(*tags, ",")
	}
	s, rec, err := c20NewSession(*mode, *scratch, tg, "")
	if err != nil {
		return fail(err)
	}
	cwd, _ := os.Getwd()
	xctx := gbuild.NewBuildContext(s.InstallSuffix(), tg)
	pkg, err := xctx.Import(".", cwd, 0)
	if err != nil {
		return fail(err)
	}
	archive, err := s.BuildProject(pkg)
	if err != nil {
		return fail(err)
	}
	deps, err := compiler.ImportDependencies(archive, s.ImportResolverFor(""))
	if err != nil {
		return fail(err)
	}
	for _, d := range deps {
		stats.Packages = append(stats.Packages, d.ImportPath)
	}
	if err := os.MkdirAll(filepath.Dir(*out), 0o777); err != nil {
		return fail(err)
	}
	codeFile, err := os.Create(*out)
	if err != nil {
		return fail(err)
	}
	defer codeFile.Close()
	if err := compiler.WriteProgramCode(deps, compiler.DefaultFilter(codeFile), s.GoRelease()); err != nil {
		return fail(err)
	}
	if rec != nil {
		for _, e := range rec.Loads {
			if e.OK {
				stats.LoadHits = append(stats.LoadHits, e.ImportPath)
			} else {
				stats.LoadMiss = append(stats.LoadMiss, e.ImportPath)
			}
		}
		for _, e := range rec.Stores {
			if e.OK {
				stats.StoreOK = append(stats.StoreOK, e.ImportPath)
			} else {
				stats.StoreFail = append(stats.StoreFail, e.ImportPath)
			}
		}
	}
	sort.Strings(stats.LoadHits)
	sort.Strings(stats.LoadMiss)
	sort.Strings(stats.StoreOK)
	sort.Strings(stats.StoreFail)
	if *statsFile != "" {
		cw.WriteResult(*statsFile, stats)
	}
	return 0
}

// C20StdJob / C20StdOut: round trip of the parsed+augmented sources of std packages obtained
// through the real session (LoadPackages → parseAndAugment).
type C20StdJob struct {
	Scratch string
	Pkgs    []string
	All     bool // also round-trip every dependency loaded along the way (thorough tier)
	Out     string
}

type C20StdOut struct {
	Results    []cw.RTResult
	LoadFailed map[string]string
	Requested  int
}

func c20StdRoundtrip(args []string) int {
	var job C20StdJob
	cw.ReadJob(args[0], &job)
	root := cw.Guard(job.Scratch)
	out := C20StdOut{LoadFailed: map[string]string{}, Requested: len(job.Pkgs)}
	gopherjspkg.RegisterFS(http.FS(os.DirFS(repoDir())))
	seen := map[string]bool{}
	// one session for all requested packages (dependencies are parsed once); after a failed
	// load the session is replaced so that a half-loaded import cannot poison the others
	var s *gbuild.Session
	for _, path := range job.Pkgs {
		if s == nil {
			var err error
			if s, err = gbuild.NewSession(&gbuild.Options{NoCache: true}); err != nil {
				out.LoadFailed[path] = err.Error()
				s = nil
				continue
			}
		}
		pkg, err := s.XContext().Import(path, "", 0)
		if err == nil {
			_, err = s.LoadPackages(pkg)
		}
		if err != nil {
			out.LoadFailed[path] = err.Error()
			s = nil
			continue
		}
		for _, srcs := range s.GetSortedSources() {
			if (srcs.ImportPath != path && !job.All) || seen[srcs.ImportPath] {
				continue // dependencies are requested on their own if they have an overlay
			}
			seen[srcs.ImportPath] = true
			out.Results = append(out.Results, cw.RoundTripOne(root, srcs))
		}
	}
	cw.WriteResult(job.Out, out)
	return 0
}
