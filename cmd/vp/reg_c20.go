//go:build vp_all || vp_c20

package main

import (
	"verif/internal/c20"
	"verif/internal/c20/cw"
)

func init() {
	checks["C20"] = c20.Run
	subcommands["c20-roundtrip"] = cw.ChildRoundtrip
	subcommands["c20-iso"] = cw.ChildIso
	subcommands["c20-damage"] = cw.ChildDamage
	subcommands["c20-store"] = cw.ChildStore
	subcommands["c20-verify"] = cw.ChildVerify
	subcommands["c20-conc"] = cw.ChildConc
	subcommands["c20-prime"] = cw.ChildPrime
	subcommands["c20-race"] = cw.RaceMain // the -race build of internal/c20/racemain runs the same body
	subcommands["c20-build"] = c20Build
	subcommands["c20-stdrt"] = c20StdRoundtrip
	subcommands["c20-seq"] = c20Seq
}
