//go:build vp_all || vp_c19

package main

import (
	"flag"
	"fmt"
	"net/http"
	"os"
	"path/filepath"

	gbuild "github.com/gopherjs/gopherjs/build"
	"github.com/gopherjs/gopherjs/compiler"
	"github.com/gopherjs/gopherjs/compiler/gopherjspkg"
)

func init() { subcommands["c19build"] = c19Build }

// c19Build compiles the main package in the current directory once and links it twice through
// the same code path as Session.WriteCommandPackage: once with a source map (out + out.map +
// sourceMappingURL trailer) and once without (nomap). One child process per (program, minify).
func c19Build(args []string) int {
	fs := flag.NewFlagSet("c19build", flag.ExitOnError)
	out := fs.String("o", "out.js", "output with source map")
	nomap := fs.String("nomap", "", "output without source map")
	minify := fs.Bool("minify", false, "")
	fs.Parse(args)

	gopherjspkg.RegisterFS(http.FS(os.DirFS(repoDir())))
	opts := &gbuild.Options{Minify: *minify, CreateMapFile: true, NoCache: true}
	s, err := gbuild.NewSession(opts)
	if err != nil {
		fmt.Fprintln(os.Stderr, err)
		return 1
	}
	cwd, _ := os.Getwd()
	xctx := gbuild.NewBuildContext(s.InstallSuffix(), opts.BuildTags)
	pkgs, err := xctx.Match([]string{"."})
	if err != nil || len(pkgs) != 1 {
		fmt.Fprintln(os.Stderr, "cannot expand package pattern .", pkgs, err)
		return 1
	}
	pkg, err := xctx.Import(pkgs[0], cwd, 0)
	if err != nil {
		fmt.Fprintln(os.Stderr, err)
		return 1
	}
	archive, err := s.BuildProject(pkg)
	if err != nil {
		fmt.Fprintln(os.Stderr, err)
		return 1
	}
	deps, err := compiler.ImportDependencies(archive, s.ImportResolverFor(""))
	if err != nil {
		fmt.Fprintln(os.Stderr, err)
		return 1
	}
	write := func(path string, withMap bool) error {
		codeFile, err := os.Create(path)
		if err != nil {
			return err
		}
		defer codeFile.Close()
		filter := compiler.DefaultFilter(codeFile)
		if withMap {
			s.EnableMapping(filter, filepath.Base(path))
			mapFile, err := os.Create(path + ".map")
			if err != nil {
				return err
			}
			defer func() {
				filter.WriteMappingTo(mapFile)
				mapFile.Close()
				fmt.Fprintf(codeFile, "//# sourceMappingURL=%s.map\n", filepath.Base(path))
			}()
		}
		return compiler.WriteProgramCode(deps, filter, s.GoRelease())
	}
	if err := write(*out, true); err != nil {
		fmt.Fprintln(os.Stderr, err)
		return 1
	}
	if *nomap != "" {
		if err := write(*nomap, false); err != nil {
			fmt.Fprintln(os.Stderr, err)
			return 1
		}
	}
	return 0
}
