//go:build vp_all || vp_c12

package main

import "verif/internal/c12"

func init() {
	checks["C12"] = c12.Run
	subcommands["c12-std"] = c12.StdMain
	subcommands["c12-augment"] = c12.AugmentMain
	subcommands["c12-show"] = c12.ShowMain
}
