//go:build vp_all || vp_c15

package main

import "verif/internal/c15"

func init() { checks["C15"] = c15.Run }
