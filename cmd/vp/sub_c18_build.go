//go:build vp_all || vp_c18

package main

import (
	"encoding/json"
	"fmt"
	"net/http"
	"os"
	"path/filepath"

	gbuild "github.com/gopherjs/gopherjs/build"
	"github.com/gopherjs/gopherjs/compiler"
	"github.com/gopherjs/gopherjs/compiler/gopherjspkg"

	"verif/internal/c18"
)

func init() { subcommands["c18-build"] = c18BuildMain }

// c18BuildMain builds many (package, tag set) pairs in one process, a fresh build.Session for
// each (same steps as `vp compile`, minus the `go list` pattern expansion: the import path is
// given). GOPATH is fixed by the parent's environment; GO111MODULE and GOOS are set per job.
//
//	vp c18-build jobs.json results.json
func c18BuildMain(args []string) int {
	if len(args) != 2 {
		fmt.Fprintln(os.Stderr, "usage: vp c18-build jobs.json results.json")
		return 2
	}
	b, err := os.ReadFile(args[0])
	if err != nil {
		fmt.Fprintln(os.Stderr, err)
		return 2
	}
	var jobs []c18.BuildJob
	if err := json.Unmarshal(b, &jobs); err != nil {
		fmt.Fprintln(os.Stderr, err)
		return 2
	}
	gopherjspkg.RegisterFS(http.FS(os.DirFS(repoDir())))
	out := make([]c18.BuildRes, 0, len(jobs))
	for _, j := range jobs {
		out = append(out, c18BuildOne(j))
	}
	b, _ = json.Marshal(out)
	if err := os.WriteFile(args[1], b, 0o644); err != nil {
		fmt.Fprintln(os.Stderr, err)
		return 2
	}
	return 0
}

func c18BuildOne(j c18.BuildJob) (res c18.BuildRes) {
	res.ID = j.ID
	defer func() {
		if r := recover(); r != nil {
			res.OK = false
			res.Panic = true
			res.Err = fmt.Sprint("panic: ", r)
		}
	}()
	fail := func(err error) c18.BuildRes {
		res.Err = err.Error()
		return res
	}
	if err := os.Chdir(j.Dir); err != nil {
		return fail(err)
	}
	if j.GOOS != "" {
		os.Setenv("GOOS", j.GOOS)
	} else {
		os.Unsetenv("GOOS")
	}
	if j.Module {
		os.Unsetenv("GO111MODULE")
	} else {
		os.Setenv("GO111MODULE", "off")
	}
	opts := &gbuild.Options{NoCache: true, BuildTags: j.Tags}
	s, err := gbuild.NewSession(opts)
	if err != nil {
		return fail(err)
	}
	pkg, err := s.XContext().Import(j.Path, j.Dir, 0)
	if err != nil {
		return fail(err)
	}
	archive, err := s.BuildProject(pkg)
	if err != nil {
		return fail(err)
	}
	deps, err := compiler.ImportDependencies(archive, s.ImportResolverFor(""))
	if err != nil {
		return fail(err)
	}
	if err := os.MkdirAll(filepath.Dir(j.Out), 0o777); err != nil {
		return fail(err)
	}
	f, err := os.Create(j.Out)
	if err != nil {
		return fail(err)
	}
	defer f.Close()
	if err := compiler.WriteProgramCode(deps, compiler.DefaultFilter(f), s.GoRelease()); err != nil {
		return fail(err)
	}
	res.OK = true
	return res
}
