// Level-2 monitor of C06: loads the prelude sources of the working tree exactly in the order
// WriteProgramCode concatenates them and calls the 64-bit helpers directly, comparing every
// result with BigInt arithmetic. usage: node prelude_bigint.js <repo> <seed> <nrandom>
"use strict";
const fs = require("fs");
const path = require("path");
const repo = process.argv[2] || "/repo";
let seed = BigInt(process.argv[3] || "1");
const nrandom = parseInt(process.argv[4] || "20000", 10);

const dir = path.join(repo, "compiler", "prelude");
const order = ["prelude.js", "numeric.js", "types.js", "goroutines.js", "jsmapping.js"];
let src = 'var $goVersion = "go-verif";\n';
for (const f of order) src += fs.readFileSync(path.join(dir, f), "utf8") + "\n";
src += "\nreturn {$mul64, $div64, $shiftLeft64, $shiftRightInt64, $shiftRightUint64, $flatten64, $imul, $Int64, $Uint64, $fround};\n";
const P = (new Function("require", "module", src)).call(globalThis, require, module);

const M64 = (1n << 64n) - 1n;
function rnd() { // xorshift64*
  seed ^= seed << 13n; seed &= M64; seed ^= seed >> 7n; seed ^= seed << 17n; seed &= M64;
  return seed;
}
if (seed === 0n) seed = 88172645463325252n;
seed = (seed * 6364136223846793005n + 1442695040888963407n) & M64;

const grid = [];
for (const k of [0n, 1n, 2n, 3n, 7n, 10n, 0xffffn, 0x10000n, 0x7fffffffn, 0x80000000n, 0xffffffffn, 0x100000000n, 0x100000001n,
  0x7fffffffffffffffn, 0x8000000000000000n, 0xffffffffffffffffn, 0xfffffffffffffffen, 0x8000000000000001n, 0x00000001ffffffffn,
  0xffffffff00000000n, 0x5555555555555555n, 0xaaaaaaaaaaaaaaaan, 0x0123456789abcdefn, 0xfedcba9876543210n, 0x7fffffff80000000n,
  0x0000ffff0000ffffn, 0x001fffffffffffffn, 0x0020000000000000n, 0x0020000000000001n]) grid.push(k);
for (let b = 0n; b < 64n; b += 5n) { grid.push((1n << b) & M64); grid.push(((1n << b) - 1n) & M64); grid.push((M64 - (1n << b) + 1n) & M64); }

function mk(ctor, bits) { // bits: unsigned 64-bit BigInt pattern
  const hi = Number(bits >> 32n), lo = Number(bits & 0xffffffffn);
  return new ctor(ctor === P.$Int64 ? (hi | 0) : hi, lo);
}
function bitsOf(v) { return ((BigInt(v.$high >>> 0) << 32n) | BigInt(v.$low >>> 0)) & M64; }
function wellFormed(v, signed) {
  if (!Number.isInteger(v.$high) || !Number.isInteger(v.$low)) return false;
  if (v.$low < 0 || v.$low > 4294967295) return false;
  if (signed) return v.$high >= -2147483648 && v.$high <= 2147483647;
  return v.$high >= 0 && v.$high <= 4294967295;
}
const S = (b) => BigInt.asIntN(64, b), U = (b) => BigInt.asUintN(64, b);

let tested = 0; const mism = []; const byOp = {};
function check(op, signed, args, got, want) {
  tested++; byOp[op] = (byOp[op] || 0) + 1;
  const g = typeof got === "object" ? bitsOf(got) : got;
  const ok = (typeof got === "object") ? (wellFormed(got, signed) && g === U(want)) : (got === want);
  if (!ok && mism.length < 20) mism.push({op, signed, args: args.map(String), got: String(g), want: String(typeof want === "bigint" ? U(want) : want), high: got && got.$high, low: got && got.$low});
  if (!ok) mism.total = (mism.total || 0) + 1;
}

function pair(a, b) {
  for (const signed of [true, false]) {
    const C = signed ? P.$Int64 : P.$Uint64;
    const x = mk(C, a), y = mk(C, b);
    const av = signed ? S(a) : U(a), bv = signed ? S(b) : U(b);
    check("mul64", signed, [a, b], P.$mul64(x, y), av * bv);
    if (bv !== 0n) {
      // truncated division; MinInt64 / -1 wraps
      check("div64", signed, [a, b], P.$div64(x, y, false), av / bv);
      check("rem64", signed, [a, b], P.$div64(x, y, true), av % bv);
    } else {
      let threw = false;
      try { P.$div64(x, y, false); } catch (e) { threw = true; }
      tested++; byOp["div64-by-zero"] = (byOp["div64-by-zero"] || 0) + 1;
      if (!threw) { mism.push({op: "div64-by-zero", args: [String(a)]}); mism.total = (mism.total || 0) + 1; }
    }
    // the forms the translator emits for + and - : constructor normalisation
    check("ctor-add", signed, [a, b], new C(x.$high + y.$high, x.$low + y.$low), av + bv);
    check("ctor-sub", signed, [a, b], new C(x.$high - y.$high, x.$low - y.$low), av - bv);
    check("ctor-neg", signed, [a], new C(-x.$high, -x.$low), -av);
    const fl = P.$flatten64(x);
    tested++; byOp["flatten64"] = (byOp["flatten64"] || 0) + 1;
    if (fl !== Number(av)) { if (mism.length < 20) mism.push({op: "flatten64", signed, args: [String(a)], got: fl, want: Number(av)}); mism.total = (mism.total || 0) + 1; }
  }
  const i32a = Number(BigInt.asIntN(32, a)), i32b = Number(BigInt.asIntN(32, b));
  tested++; byOp["imul"] = (byOp["imul"] || 0) + 1;
  const wantI = Number(BigInt.asIntN(32, BigInt(i32a) * BigInt(i32b)));
  if (P.$imul(i32a, i32b) !== wantI) { if (mism.length < 20) mism.push({op: "imul", args: [i32a, i32b], got: P.$imul(i32a, i32b), want: wantI}); mism.total = (mism.total || 0) + 1; }
}
function shifts(a) {
  for (let n = 0; n <= 70; n++) {
    const bn = BigInt(n);
    for (const signed of [true, false]) {
      const C = signed ? P.$Int64 : P.$Uint64;
      const x = mk(C, a);
      const av = signed ? S(a) : U(a);
      check("shl64", signed, [a, n], P.$shiftLeft64(x, n), av << bn);
      if (signed) check("shr64s", true, [a, n], P.$shiftRightInt64(x, n), av >> bn);
      else check("shr64u", false, [a, n], P.$shiftRightUint64(x, n), av >> bn);
    }
  }
}
for (const a of grid) { shifts(a); for (const b of grid) pair(a, b); }
for (let i = 0; i < nrandom; i++) {
  let a = rnd(), b = rnd();
  const m = Number(rnd() & 7n);
  if (m === 0) b >>= BigInt(Number(rnd() & 63n));
  if (m === 1) a >>= BigInt(Number(rnd() & 63n));
  if (m === 2) { a >>= 32n; b >>= 32n; }
  if (m === 3) b = grid[Number(rnd() % BigInt(grid.length))];
  pair(a, b);
  if (i % 16 === 0) shifts(a);
}
console.log(JSON.stringify({tested, byOp, mismatches: mism.total || 0, witnesses: mism}));
