// C11 probe – preloaded with `node --require` before a GopherJS-compiled workload program.
//
// It records, for every value that arrives on the JavaScript side of the js package boundary,
// a canonical *descriptor* (see desc below) and writes one JSON line {"t":tag,"d":descriptor}
// per record to the file named by $VP_C11_OUT (flushed at process exit, also on crashes).
// It also provides helpers to obtain values FROM JavaScript (__mk) and to call Go functions
// from a real event-loop callback (__callLater).
//
// Descriptor grammar (all ASCII):
//   undef | null | bool:true | bool:false | num:<16 hex digits of the float64 bits> | num:nan
//   str:<4 hex digits per UTF-16 code unit>
//   fn#<id>                                  id: stable per function object (WeakMap)
//   ta:<Class>:<len>:[e,e,…]@<byteOffset>:buf#<id>   elements as 16-hex float64 bits | nan
//   arr[d,d,…]                               Array.isArray
//   obj{<hexkey>=d,…}                        plain object (prototype Object.prototype), own
//                                            property names sorted by code units
//   obj<Ctor>{…}                             any other object
//   cycle                                    back reference
'use strict';
(function () {
  const fs = require('fs');
  const outPath = process.env.VP_C11_OUT || '';
  let fd = -1;
  let pending = [];
  let nrec = 0;
  function flush() {
    if (pending.length === 0) return;
    const s = pending.join('');
    pending = [];
    if (outPath === '') { return; }
    if (fd < 0) fd = fs.openSync(outPath, 'a');
    fs.writeSync(fd, s);
  }
  process.on('exit', function () {
    try { flush(); if (fd >= 0) fs.closeSync(fd); } catch (e) { /* nothing left to do */ }
  });

  const fnIds = new WeakMap(); let nextFn = 0;
  const bufIds = new WeakMap(); let nextBuf = 0;
  function fnId(f) { let i = fnIds.get(f); if (i === undefined) { i = ++nextFn; fnIds.set(f, i); } return i; }
  function bufId(b) { let i = bufIds.get(b); if (i === undefined) { i = ++nextBuf; bufIds.set(b, i); } return i; }

  const dv = new DataView(new ArrayBuffer(8));
  function h8(x) { return ('00000000' + (x >>> 0).toString(16)).slice(-8); }
  function h4(x) { return ('0000' + x.toString(16)).slice(-4); }
  function numBits(x) {
    if (x !== x) return 'nan';
    dv.setFloat64(0, x);
    return h8(dv.getUint32(0)) + h8(dv.getUint32(4));
  }
  function units(s) {
    let o = '';
    for (let i = 0; i < s.length; i++) o += h4(s.charCodeAt(i));
    return o;
  }
  function ctorName(v) {
    try {
      const p = Object.getPrototypeOf(v);
      if (p === null) return 'null-proto';
      const c = p.constructor;
      if (typeof c === 'function' && typeof c.name === 'string') return c.name;
    } catch (e) { /* fallthrough */ }
    return '?';
  }
  function desc(v, seen) {
    if (v === undefined) return 'undef';
    if (v === null) return 'null';
    switch (typeof v) {
      case 'boolean': return v ? 'bool:true' : 'bool:false';
      case 'number': return 'num:' + numBits(v);
      case 'string': return 'str:' + units(v);
      case 'function': return 'fn#' + fnId(v);
      case 'bigint': return 'bigint:' + v.toString();
      case 'symbol': return 'symbol';
    }
    if (ArrayBuffer.isView(v) && !(v instanceof DataView)) {
      const es = [];
      for (let i = 0; i < v.length; i++) es.push(typeof v[i] === 'number' ? numBits(v[i]) : String(v[i]));
      return 'ta:' + ctorName(v) + ':' + v.length + ':[' + es.join(',') + ']@' + v.byteOffset + ':buf#' + bufId(v.buffer);
    }
    if (seen === undefined) seen = [];
    if (seen.indexOf(v) >= 0) return 'cycle';
    seen.push(v);
    let r;
    if (Array.isArray(v)) {
      const es = [];
      for (let i = 0; i < v.length; i++) es.push(desc(v[i], seen));
      r = 'arr[' + es.join(',') + ']';
    } else {
      const names = Object.getOwnPropertyNames(v).map(function (k) { return [units(k), k]; });
      names.sort(function (a, b) { return a[0] < b[0] ? -1 : a[0] > b[0] ? 1 : 0; });
      const es = [];
      for (const n of names) {
        let pv;
        try { pv = desc(v[n[1]], seen); } catch (e) { pv = 'throws'; }
        es.push(n[0] + '=' + pv);
      }
      const proto = Object.getPrototypeOf(v);
      r = (proto === Object.prototype ? 'obj' : 'obj<' + ctorName(v) + '>') + '{' + es.join(',') + '}';
    }
    seen.pop();
    return r;
  }
  function record(tag, d) {
    nrec++;
    pending.push(JSON.stringify({ t: String(tag), d: d }) + '\n');
    if (pending.length >= 2000) flush();
  }
  function rec(tag, v) {
    let d;
    try { d = desc(v); } catch (e) { d = 'desc-throws:' + String(e && e.message); }
    record(tag, d);
  }

  const G = globalThis;
  // __vp(tag, v): record v, hand it back unchanged (identity function for round trips).
  G.__vp = function (tag, v) { rec(tag, v); return v; };
  // __vpN(tag, a, b, …): record every argument as tag.0, tag.1, …; also the argument count.
  G.__vpN = function (tag) {
    record(tag + '.n', 'num:' + numBits(arguments.length - 1));
    const out = [];
    for (let i = 1; i < arguments.length; i++) { rec(tag + '.' + (i - 1), arguments[i]); out.push(arguments[i]); }
    return out;
  };
  // __vpThis(tag): record `this`.
  G.__vpThis = function (tag) { rec(tag, this); return this; };
  // __vpRead(tag, key): record the global property (written by js.Global.Set).
  G.__vpRead = function (tag, key) { const v = G[key]; rec(tag, v); return v; };
  // __vpProp(tag, obj, key): record obj[key].
  G.__vpProp = function (tag, o, key) { const v = o[key]; rec(tag, v); return v; };
  // new __VPBox(tag, v): constructor path (Object.New).
  G.__VPBox = function (tag, v) { rec(tag, v); this.v = v; this.n = arguments.length; };
  // __vpCall(tag, fn, args…): call an externalised Go function from JS, record its result.
  G.__vpCall = function (tag, fn) {
    const args = Array.prototype.slice.call(arguments, 2);
    const r = fn.apply(undefined, args);
    rec(tag, r);
    return r;
  };
  // __vpCallThis(tag, thisValue, fn, args…)
  G.__vpCallThis = function (tag, th, fn) {
    const args = Array.prototype.slice.call(arguments, 3);
    const r = fn.apply(th, args);
    rec(tag, r);
    return r;
  };
  // __vpMethod(tag, obj, name, args…): obj[name](args…) with obj as this.
  G.__vpMethod = function (tag, o, name) {
    const args = Array.prototype.slice.call(arguments, 3);
    const r = o[name].apply(o, args);
    rec(tag, r);
    return r;
  };
  // __vpCallSpec(tag, fn, code): call fn with the arguments given by the JS array expression `code`.
  G.__vpCallSpec = function (tag, fn, code) {
    const args = (0, eval)('(' + code + ')');
    const r = fn.apply(undefined, args);
    rec(tag, r);
    return r;
  };
  // __vpSame(tag, a, b): record a === b.
  G.__vpSame = function (tag, a, b) { record(tag, a === b ? 'bool:true' : 'bool:false'); return a === b; };
  // __mk(code): a value made in JavaScript.
  G.__mk = function (code) { return (0, eval)('(' + code + ')'); };
  // __mkStr(units): a string from UTF-16 code units given as a typed array / array of numbers.
  G.__mkStr = function (u) {
    let s = '';
    for (let i = 0; i < u.length; i++) s += String.fromCharCode(u[i]);
    return s;
  };
  G.__vpIdent = function (x) { return x; };
  G.__vpPoke = function (a, i, x) { a[i] = x; };
  G.__vpPeek = function (a, i) { return a[i]; };
  const kept = {};
  G.__vpKeep = function (slot, v) { kept[slot] = v; return v; };
  G.__vpKept = function (tag, slot) { const v = kept[slot]; rec(tag, v); return v; };

  // bulk comparisons done on the JS side: only failures are recorded, plus one summary record.
  const bulk = {};
  function bulkHit(name, ok, detail) {
    let b = bulk[name];
    if (b === undefined) b = bulk[name] = { n: 0, fail: 0 };
    b.n++;
    if (!ok) { b.fail++; if (b.fail <= 5) record('bulkfail.' + name + '.' + b.fail, 'str:' + units(detail)); }
  }
  // __vpBulkStr(name, s, u16): s must consist of exactly the code units in u16.
  G.__vpBulkStr = function (name, s, u) {
    let ok = typeof s === 'string' && s.length === u.length;
    if (ok) for (let i = 0; i < u.length; i++) if (s.charCodeAt(i) !== u[i]) { ok = false; break; }
    bulkHit(name, ok, typeof s === 'string' ? 'got ' + units(s) + ' want ' + Array.prototype.map.call(u, h4).join('') : typeof s);
    return s;
  };
  // __vpBulkNum(name, x, hi, lo): x must be the number whose float64 bits are hi:lo (NaN: any NaN).
  G.__vpBulkNum = function (name, x, hi, lo) {
    dv.setUint32(0, hi >>> 0); dv.setUint32(4, lo >>> 0);
    const w = dv.getFloat64(0);
    const ok = typeof x === 'number' && (Object.is(x, w) || (x !== x && w !== w));
    bulkHit(name, ok, typeof x === 'number' ? 'got ' + numBits(x) + ' want ' + numBits(w) : typeof x);
    return x;
  };
  // __vpBulkTA(name, a, cls, sum): typed array of class cls whose elements sum (mod 2^32 of the
  // truncated integer values, or float sum for float classes) equals sum.
  G.__vpBulkDesc = function (name, v, want) {
    let d;
    try { d = desc(v).replace(/@\d+:buf#\d+/g, ''); } catch (e) { d = 'throws'; }
    bulkHit(name, d === want, 'got ' + d + ' want ' + want);
    return v;
  };
  G.__vpBulkReport = function () {
    for (const k of Object.keys(bulk).sort()) record('bulk.' + k, 'obj{n=' + bulk[k].n + ',fail=' + bulk[k].fail + '}');
  };

  // __callLater(tag, fn, ms, args…): invoke fn from a real event-loop callback; whatever it throws is
  // caught HERE (JS side) and recorded, as the property demands for the callback guard.
  G.__callLater = function (tag, fn, ms) {
    const args = Array.prototype.slice.call(arguments, 3);
    setTimeout(function () {
      let r;
      try {
        r = fn.apply(undefined, args);
      } catch (e) {
        const name = e && e.constructor && e.constructor.name;
        record(tag, 'throw:' + name + ':' + String(e && e.message));
        flush();
        return;
      }
      record(tag, 'ok:' + desc(r));
      flush();
    }, ms);
  };
  G.__vpFlush = flush;
  G.__vpCount = function () { return nrec; };
})();
