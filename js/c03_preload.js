// Choice-tape preload for C03: the runtime's nondeterministic choices are Math.random (pick
// among ready select cases) and the Date.now time-slice test of the scheduler loop.
// VP_TAPE=<seed>[:slice]  seed drives a deterministic PRNG behind Math.random;
// slice = 1 makes Date.now advance 5 ms per call, so the scheduler yields to the event loop
// after every goroutine step (and the invariant monitor checks after every step).
"use strict";
(() => {
  const spec = (process.env.VP_TAPE || "1:0").split(":");
  let s = (parseInt(spec[0], 10) >>> 0) || 1;
  const slice = spec[1] === "1";
  let calls = 0;
  Math.random = () => {
    calls++;
    // xorshift32
    s ^= s << 13; s >>>= 0; s ^= s >>> 17; s ^= s << 5; s >>>= 0;
    return (s >>> 0) / 4294967296;
  };
  if (slice) {
    let t = 1700000000000;
    Date.now = () => { t += 5; return t; };
  }
  process.on("exit", () => { process.stderr.write("VERIF-TAPE random_calls=" + calls + "\n"); });
})();
