// C18 helper: runs many emitted programs in one node process, each in a fresh vm context with its
// own global object, and records what each printed through console.log.
//
//   node c18_runner.js jobs.json results.json
//   jobs:    [{"id": "...", "file": "/abs/out.js"}]
//   results: [{"id": "...", "lines": ["..."], "error": "", "done": true}]
//
// A program is finished when it has printed its "REG:" line (the last thing its main does). Anything
// abnormal (exception, no REG line) is only reported here; the Go side then re-runs that program
// stand-alone with plain `node out.js` and judges that run.
'use strict';
const vm = require('vm');
const fs = require('fs');

const jobs = JSON.parse(fs.readFileSync(process.argv[2], 'utf8'));
const out = [];
let cur = null;

process.on('uncaughtException', (e) => {
  if (cur) { cur.error += String((e && e.stack) || e) + '\n'; }
});

function finish() {
  fs.writeFileSync(process.argv[3], JSON.stringify(out));
  process.exit(0);
}

function next(i) {
  if (i >= jobs.length) { return finish(); }
  const j = jobs[i];
  const rec = { id: j.id, lines: [], error: '', done: false };
  out.push(rec);
  cur = rec;
  const log = (...a) => { rec.lines.push(a.join(' ')); };
  const sandbox = {
    console: { log: log, error: log, warn: log, info: log },
    setTimeout, clearTimeout, setInterval, clearInterval, setImmediate, clearImmediate,
    TextDecoder, TextEncoder, performance, queueMicrotask,
  };
  try {
    vm.runInNewContext(fs.readFileSync(j.file, 'utf8'), sandbox, { filename: j.file });
  } catch (e) {
    rec.error += String((e && e.stack) || e) + '\n';
  }
  let tries = 0;
  const wait = () => {
    rec.done = rec.lines.some((l) => l.startsWith('REG:'));
    if (rec.done || rec.error !== '' || ++tries > 400) { return next(i + 1); }
    setTimeout(wait, tries < 20 ? 0 : 5);
  };
  setTimeout(wait, 0);
}

next(0);
