package p

type Kind uint

const (
	K0 Kind = iota
	K1
	K2
)

const (
	S0, S1 = "a", "b"
	S2, S3
)
