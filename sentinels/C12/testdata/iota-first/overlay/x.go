package p

//gopherjs:purge
const K0 = 0

const S0 = "override"
