package p

const S0 = "override"
