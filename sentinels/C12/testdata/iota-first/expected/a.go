package p

type Kind uint

const (
	_ Kind = iota
	K1
	K2
)

const (
	_, S1 = "a", "b"
	S2, S3
)
