package p

const (
	A = "first"
	B = "second"
	C
	D = "fourth"
)
