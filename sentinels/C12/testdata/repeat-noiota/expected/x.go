package p

func B() string { return "func now" }
