package p

const (
	A = "first"
	_ = "second"
	C
	D = "fourth"
)
