package p

var registered = 0

func register() int { registered++; return registered }

var _ = register()

func _() {}

var X = 1
