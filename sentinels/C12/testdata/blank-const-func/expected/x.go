package p

const (
	_ = iota
	One
)

func _() {}

var X = 2
