package p

var _ = "overlay blank"
