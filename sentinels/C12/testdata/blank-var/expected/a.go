package p

import "unsafe"

type T struct{}

func (T) String() string { return "" }

var _ = unsafe.Sizeof(0)

var _ interface{ String() string } = T{}
