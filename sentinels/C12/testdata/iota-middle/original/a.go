package p

const (
	I0 = iota + 100
	I1
	I2
)
