package p

const I1 = "x"
