package p

const (
	I0 = iota + 100
	_
	I2
)
