package p

//gopherjs:purge
type Mode int

//gopherjs:purge
const (
	ModeA = 0
	ModeB = 0
)

const ModeC = "replaced"
