package p

var Keep = 1
