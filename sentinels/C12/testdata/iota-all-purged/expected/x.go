package p

const ModeC = "replaced"
