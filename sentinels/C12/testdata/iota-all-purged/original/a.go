package p

type Mode int

const (
	ModeA Mode = iota
	ModeB
	ModeC
)

var Keep = 1
