package main

// Conditions, tags and operands evaluated by statements the compiler rewrites into synthetic
// ones (if/else-if clauses, switch tags, case conditions, sends).
func plainConds(k int) int {
	s := 0
	if tbl[at(k, 1)] == 5 { //@site 1 if-cond
		s++
	}
	if s == 77 {
		s++
	} else if tbl[at(k, 2)] == 5 { //@site 2 elseif-cond alt=-2
		s++
	}
	for i := tbl[at(k, 3)]; i < 3; i++ { //@site 3 for-init
		s++
	}
	switch tbl[at(k, 4)] { //@site 4 switch-tag
	case 7:
		s++
	}
	switch {
	case s == 99:
	case tbl[at(k, 5)] == 9: //@site 5 switch-case alt=-2
		s++
	}
	for i := 0; i < tbl[at(k, 6)]; i++ { //@site 6 for-cond
		s++
		break
	}
	for _, v := range tbl[tbl[at(k, 7)]:] { //@site 7 range-expr
		s += v
		break
	}
	var big, zero int64 = 1 << 40, int64(tbl[0])
	if k == 8 {
		s += int(big / zero) //@site 8 div64-in-numeric.js
	}
	return s + tbl[at(k, 9)] //@site 9 return
}

func blockingConds(k int) int {
	ch := make(chan int, 1)
	ch <- 1
	s := <-ch
	ch <- tbl[at(k, 11)] //@site 11 send
	s += <-ch
	if tbl[at(k, 12)] == 5 { //@site 12 if-cond
		s++
	}
	if tbl[at(k, 13)] == 0 { //@site 13 if-cond-flat
		ch <- 1
		s += <-ch
	}
	if s == 77 {
		s++
	} else if tbl[at(k, 14)] == 0 { //@site 14 elseif-cond-flat alt=-2
		ch <- 1
		s += <-ch
	}
	switch tbl[at(k, 15)] { //@site 15 switch-tag
	case 0:
		ch <- 1
		s += <-ch
	}
	switch {
	case s == 99:
		s++
	case tbl[at(k, 16)] == 0: //@site 16 switch-case-flat alt=-3
		ch <- 1
		s += <-ch
	}
	switch {
	case s == 99:
	case tbl[at(k, 17)] == 0: //@site 17 switch-case alt=-2
		s++
	}
	select {
	case ch <- tbl[at(k, 18)]: //@site 18 select-send alt=-1
		s += <-ch
	default:
	}
	return s + tbl[at(k, 19)] //@site 19 return
}
