package main

import (
	"github.com/gopherjs/gopherjs/js"

	"prog/lib"
)

// The package lib carries lib.inc.js; when minified its wrapper "(function(){" is not followed
// by a newline, so the first line of the included code starts at a non-zero column.
func incThrow(k int) int {
	return lib.Touch() + js.Global.Call("c19inc", nil, 1).Int()
}

func incThrowB(k int) int {
	return js.Global.Call("c19incB", 2).Int()
}

func incCallback(k int) int {
	cb := func(n int) int {
		return 1 + tbl[at(n, 3)] //@site 3 incjs-callback via=9
	}
	return js.Global.Call("c19inc", cb, k).Int()
}
