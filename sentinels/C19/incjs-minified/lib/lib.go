// Package lib carries a .inc.js file.
package lib

func Touch() int { return 0 }
