// helper included verbatim into the package (c19)
$global.c19inc = function(f, n) {
  var r = 0;
  if (n === 1) {
    throw new Error("INC-THROW"); //@site 1 incjs-throw js
  }
  /* a comment
     spanning lines */
  r = f(n);
  return r + 1;
};
$global.c19incB = function(n) {
  var q = { a: n,
            b: n + 1 };
  if (q.b === 3) { throw new Error("INC-THROW-B"); } //@site 2 incjs-throw-after-multiline js
  return q.a;
};
