package main

// Field and method names that are not ASCII survive minification: generated columns must be
// counted in UTF-16 code units or frames behind them resolve to earlier lines.
type Ωt struct{ ΩΩΩΩΩΩΩΩ, ééééé int }

func (t *Ωt) Mééééé(k int) int {
	t.ΩΩΩΩΩΩΩΩ = 1
	t.ééééé = 2
	t.ΩΩΩΩΩΩΩΩ += t.ééééé
	t.ΩΩΩΩΩΩΩΩ += t.ééééé + tbl[at(k, 1)] //@site 1 nonascii-field
	if k == 2 {
		panic("P2") //@site 2 panic
	}
	t.ΩΩΩΩΩΩΩΩ += t.ééééé
	t.ééééé, t.ΩΩΩΩΩΩΩΩ = t.ΩΩΩΩΩΩΩΩ, tbl[at(k, 3)] //@site 3 nonascii-field2
	if k == 4 {
		panic( //@site 4 panic-multiline
			"P4")
	}
	return t.ΩΩΩΩΩΩΩΩ + tbl[at(k, 5)] //@site 5 return
}

func nonascii(k int) int {
	t := &Ωt{}
	return t.Mééééé(k) + tbl[at(k, 6)] //@site 6 nonascii-method-call
}
