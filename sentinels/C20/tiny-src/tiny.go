// Package tiny is the smallest real Sources payload of the damage tests.
package tiny

import "math"

// Pair is generic.
type Pair[K comparable, V any] struct {
	Key K // line comment
	Val V
}

// floating comment

func Area(r float64) float64 { return math.Pi * r * r }

func Sum[T ~int | ~float64](xs ...T) (s T) {
	for _, x := range xs {
		s += x
	}
	return
}
