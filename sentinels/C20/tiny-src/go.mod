module tiny

go 1.20
