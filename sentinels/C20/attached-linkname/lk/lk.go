// Package lk declares a function without a body whose implementation is linked in from
// prog/impl. The go:linkname directive is part of the doc comment of the declaration (twin of
// sentinels/C20/floating-linkname, which differs only in the blank line after the directive).
package lk

import (
	_ "unsafe" // for go:linkname

	_ "prog/impl"
)

//go:linkname linked prog/impl.Target
// linked is implemented by prog/impl.Target.
func linked(x int) int

func Call(x int) int { return linked(x) }
