// Package impl provides the implementation the lk package links to.
package impl

func Target(x int) int { return x*5 + 2 }
