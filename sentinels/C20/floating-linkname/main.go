package main

import "prog/lk"

func main() {
	if lk.Call(8) == 42 {
		println("linked 42")
	} else {
		println("not linked")
	}
}
