module prog

go 1.20
