// Package lk declares a function without a body whose implementation is linked in from
// prog/impl. The go:linkname directive is separated from the declaration by a blank line, so
// go/parser puts it into a free-floating comment group (present in ast.File.Comments only).
package lk

import (
	_ "unsafe" // for go:linkname

	_ "prog/impl"
)

//go:linkname linked prog/impl.Target

// linked is implemented by prog/impl.Target.
func linked(x int) int

func Call(x int) int { return linked(x) }
