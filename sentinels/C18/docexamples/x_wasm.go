package main

func init() { reg("x_wasm.go") }
