//go:build js

package main

func init() { reg("d01.go") }
