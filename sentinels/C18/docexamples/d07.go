//go:build go1.21

package main

func init() { reg("d07.go") }
