//go:build gc

package main

func init() { reg("d11.go") }
