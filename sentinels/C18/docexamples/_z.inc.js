console.log("INCJS:_z.inc.js");
