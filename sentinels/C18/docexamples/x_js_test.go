package main

func init() { reg("x_js_test.go") }
