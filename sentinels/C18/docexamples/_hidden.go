package main

func init() { reg("_hidden.go") }
