//go:build !alpha

package main

func init() { reg("d14.go") }
