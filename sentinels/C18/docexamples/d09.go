//go:build cgo

package main

func init() { reg("d09.go") }
