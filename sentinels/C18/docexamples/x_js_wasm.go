package main

func init() { reg("x_js_wasm.go") }
