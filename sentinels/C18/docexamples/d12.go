//go:build unix

package main

func init() { reg("d12.go") }
