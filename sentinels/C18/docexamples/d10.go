package main

import "C"

func init() { reg("d10.go") }
