package main

func init() { reg("x_linux.go") }
