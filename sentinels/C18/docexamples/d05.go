//go:build !gopherjs

package main

func init() { reg("d05.go") }
