//go:build js && ecmascript

package main

func init() { reg("d02.go") }
