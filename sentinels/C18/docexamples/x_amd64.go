package main

func init() { reg("x_amd64.go") }
