//go:build purego && netgo && math_big_pure_go

package main

func init() { reg("d08.go") }
