package main

var names []string

func reg(s string) { names = append(names, s) }

func sorted(in []string) string {
	a := make([]string, len(in))
	copy(a, in)
	for i := 1; i < len(a); i++ {
		for j := i; j > 0 && a[j] < a[j-1]; j-- {
			a[j], a[j-1] = a[j-1], a[j]
		}
	}
	s := ""
	for _, x := range a {
		s += x + ";"
	}
	return s
}

func main() {
	println("REG:" + sorted(names) + "|DEP:")
}
