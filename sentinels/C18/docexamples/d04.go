//go:build gopherjs

package main

func init() { reg("d04.go") }
