//go:build js && wasm

package main

func init() { reg("d03.go") }
