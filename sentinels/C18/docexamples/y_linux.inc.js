//go:build ignore
// +build ignore

console.log("INCJS:y_linux.inc.js");
