package main

func init() { reg("x_ecmascript.go") }
