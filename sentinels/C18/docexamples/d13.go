//go:build alpha

package main

func init() { reg("d13.go") }
