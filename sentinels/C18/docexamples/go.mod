module c18sentinel

go 1.20
