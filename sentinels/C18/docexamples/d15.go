//go:build linux || wasm || amd64

package main

func init() { reg("d15.go") }
