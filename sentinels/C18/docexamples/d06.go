//go:build go1.20

package main

func init() { reg("d06.go") }
