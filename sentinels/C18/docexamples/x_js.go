package main

func init() { reg("x_js.go") }
