#!/usr/bin/env python3
"""Regenerates /verif/MANIFEST.json from the table below (checks that exist) – every property
without an entry is listed under not_applicable with its reason."""
import json, subprocess, os
V = '/verif'
props = [json.loads(l) for l in open(V + '/properties.jsonl')]
REF = "trusted base: reference toolchain go1.23.5 (amd64) as the executable specification of Go semantics, node v20 as the JavaScript engine, the harness's own generators/normalisers; programs the reference rejects or on which a watchdog fires are inconclusive, never violations"
checks = {
 "C06": dict(cat="exploration", tech="runtime monitoring: differential trace monitor (table-driven programs vs reference toolchain) + BigInt oracle over direct prelude helper calls",
   text="Every (numeric type, operator, operand shape) is executed on a boundary grid squared, PRNG operands, all shift counts, 8-bit exhaustively, all numeric conversions, multiplication/division/remainder by constants of every bit length, shifts whose operands have ordered side effects, and random expression trees; integer results are also folded after conversion to float64 (exposes -0); digests and sampled raw results must equal the reference toolchain's; the prelude's 64-bit helpers are called directly on ~7e5 operand pairs against BigInt. Held-on-observed, not a proof.", ref="DESIGN.md §4 C06"),
 "C14": dict(cat="exploration", tech="runtime monitoring: differential trace monitor over run-time enumerated byte strings and generated string literals vs reference toolchain",
   text="All byte strings over a 24-byte boundary alphabet up to length 4 are enumerated at run time (len, index, every slice, range, []rune/[]byte conversions, comparisons, concatenation, map keys, switch, bounds panics), PRNG strings up to 64 bytes, rune conversions at encoding boundaries, every form of the range clause, conversions of long byte slices/strings at every offset and length around the run-time chunk size, a generated table of literals in every escape form incl. every byte followed by escape-sensitive characters; each category digest must equal the reference's.", ref="DESIGN.md §4 C14"),
 "C15": dict(cat="exploration", tech="runtime monitoring: differential state-digest monitor over PRNG map operation histories + in-program range-contract monitor vs reference toolchain",
   text="For ~50 (quick) / ~400 (thorough) comparable key types incl. nested arrays/structs, interfaces with equal-looking values of distinct dynamic types, NaN/±0, pointers and channels: PRNG histories of insert/overwrite/delete/lookup/len/range-with-mutation; after every step len, comma-ok lookup of every pool key and an order-insensitive range fold are digested and compared with the reference; the range visiting contract is checked by a monitor in the program. Pools cover 64-bit keys around 2^53/2^62/min/max, every pair of strings over the key-escaping characters in arrays/structs/interfaces, one object under several dynamic types as interface key, and keys taken from getters of variables that change afterwards.", ref="DESIGN.md §4 C15"),
}
extra = V + '/tools/manifest_extra.json'
if os.path.exists(extra):
    checks.update(json.load(open(extra)))
reasons = {}
rf = V + '/tools/not_applicable.json'
if os.path.exists(rf):
    reasons = json.load(open(rf))
hooks = []
if os.path.exists(V + '/MANIFEST.hooks'):
    for l in open(V + '/MANIFEST.hooks'):
        l = l.strip()
        if l and not l.startswith('#'):
            hooks.append(l.split()[0])
m = {"version": 1,
 "setup_cmd": "cd /verif && GOFLAGS=-mod=mod GOPROXY=off GOSUMDB=off GOTOOLCHAIN=local go build -tags \"verif vp_all\" -o /dev/null ./cmd/vp",
 "hooks": {"guard": "verif", "enable": "go build -tags verif: check.sh builds the driver (which links /repo through a replace directive) and the gopherjs CLI with the verif tag; hook files are add-only files with //go:build verif, listed in MANIFEST.hooks",
           "baseline_off_cmd": "/verif/baseline_off.sh", "source_commits": sorted(set(hooks)), "add_only": True},
 "notes": "Technique family: runtime monitoring. Every check observes real executions of the build pipeline (build.Session -> compiler -> prelude -> node) under generated/hostile workloads and decides with an oracle over those executions (reference toolchain traces, self-consistency between variants, history checkers, in-runtime invariant hooks, fault injection). See DESIGN.md.",
 "engines": [{"name": "vp", "path": "/verif/cmd/vp", "serves_properties": sorted(checks.keys()), "kind_free_text": "Go driver: workload generators, pipeline runner, trace monitors, evidence writer"}],
 "checks": [], "not_applicable": []}
for p in props:
    i = p["id"]
    if i in checks:
        c = checks[i]
        m["checks"].append({"property_id": i, "quick_cmd": "./check.sh %s quick" % i, "thorough_cmd": "./check.sh %s thorough" % i,
            "evidence_file": "/verif/evidence/%s.json" % i, "replay_cmd_template": "cat {path}/WHAT.txt  # bundle holds sources, traces and the diff; re-run: ./check.sh %s quick" % i,
            "engine": "vp", "level_claimed": {"category": c["cat"], "text": c["text"], "design_ref": c.get("ref", "DESIGN.md")},
            "level_note": c.get("note", REF), "technique": c["tech"]})
    else:
        m["not_applicable"].append({"property_id": i, "reason": reasons.get(i, "check under construction in this session; not claimed yet")})
json.dump(m, open(V + '/MANIFEST.json', 'w'), indent=1)
print("checks:", [c["property_id"] for c in m["checks"]])
