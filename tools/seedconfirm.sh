#!/bin/bash
# tools/seedconfirm.sh <name> <seed-dir>   – independent confirmation of a seeded defect:
# in a scratch worktree of /repo HEAD: the demo passes on the clean tree, the patch applies and
# builds, the pinned suite still passes with it, the demo fails with it. On success the seed is
# stored under /verif/seeded/<name>/ (patch.diff, demo/, meta.json + confirm.txt).
set -u
NAME="$1"; SD="$2"
WT=/tmp/sc-$NAME
export GOFLAGS=-mod=mod GOPROXY=off GOSUMDB=off GOTOOLCHAIN=local GOPHERJS_SKIP_VERSION_CHECK=1
git -C /repo worktree remove --force "$WT" >/dev/null 2>&1
git -C /repo worktree add --detach "$WT" HEAD >/dev/null 2>&1 || { echo "$NAME worktree failed"; exit 2; }
mkdir -p "$WT/SEED/1"; cp -r "$SD/demo" "$WT/SEED/1/demo"; chmod +x "$WT/SEED/1/demo/run.sh" 2>/dev/null
DEMOARG="$WT/gopherjs.bin"; [ -n "${SEED_WTARG:-}" ] && DEMOARG="$WT"
run_demo() { (cd "$WT" && go build -o "$WT/gopherjs.bin" . ) >/dev/null 2>&1 || return 99; (cd "$WT/SEED/1/demo" && GOPHERJS="$WT/gopherjs.bin" GOPHERJS_NOBUILD=1 WT="$WT" timeout 900 bash ./run.sh "$DEMOARG") >"$WT/demo.log" 2>&1; return $?; }
run_demo; clean_rc=$?
if ! git -C "$WT" apply "$SD/patch.diff" 2>/dev/null; then echo "$NAME PATCH-DOES-NOT-APPLY"; git -C /repo worktree remove --force "$WT"; exit 2; fi
(cd "$WT" && go build ./...) >/dev/null 2>&1; build_rc=$?
VERIF_REPO="$WT" /verif/baseline_off.sh > "$WT/baseline.log" 2>&1; base_rc=$?
run_demo; patched_rc=$?
RES="$NAME clean-demo-rc=$clean_rc build-rc=$build_rc baseline-rc=$base_rc ($(tail -1 $WT/baseline.log | cut -c1-60)) patched-demo-rc=$patched_rc"
echo "$RES"
if [ $clean_rc -eq 0 ] && [ $build_rc -eq 0 ] && [ $base_rc -eq 0 ] && [ $patched_rc -ne 0 ] && [ $patched_rc -ne 99 ]; then
  D=/verif/seeded/$NAME; rm -rf "$D"; mkdir -p "$D"; cp "$SD/patch.diff" "$D/"; cp -r "$SD/demo" "$D/demo"; cp "$SD/meta.json" "$D/meta.json" 2>/dev/null
  echo "$RES" > "$D/confirm.txt"; tail -15 "$WT/demo.log" >> "$D/confirm.txt"
  echo "$NAME CONFIRMED"
else
  echo "$NAME NOT-CONFIRMED"; tail -5 "$WT/demo.log"
fi
git -C /repo worktree remove --force "$WT" >/dev/null 2>&1
