#!/bin/bash
# tools/sweep.sh <seed> [tier] [parallel] : runs every check; seed 1 writes the real evidence, other seeds go to /var/tmp/sweep-<seed>
SEED=${1:-1}; TIER=${2:-quick}; PAR=${3:-3}
OUT=/var/tmp/sweep-$SEED-$TIER; rm -rf $OUT; mkdir -p $OUT
export VERIF_SEED=$SEED
if [ "$SEED" != 1 ]; then export VERIF_EVIDENCE_DIR=$OUT/evidence VERIF_REPLAY_DIR=$OUT/replay; fi
for i in $(seq -w 1 20); do echo C$i; done | xargs -P $PAR -I{} bash -c "/verif/check.sh {} $TIER > $OUT/{}.log 2>&1; echo \"{} rc=\$? \$(grep -c '^VIOLATION' $OUT/{}.log) viol; \$(tail -1 $OUT/{}.log | cut -c1-160)\" >> $OUT/SUMMARY"
sort $OUT/SUMMARY
