#!/bin/bash
# tools/seedall.sh <ID> <n> [stored-name] [extra check ids...] : confirm seed /tmp/seed-<ID>/SEED/<n>, store it as
# /verif/seeded/<stored-name> (default <id>-<n>) and run the property's check against it
ID=$1; N=$2; shift 2
name=$(echo "$ID" | tr A-Z a-z)-$N
if [ $# -gt 0 ]; then name=$1; shift; fi
/verif/tools/seedconfirm.sh $name /tmp/seed-$ID/SEED/$N
/verif/tools/seedtest.sh $name /tmp/seed-$ID/SEED/$N/patch.diff $ID "$@"
