#!/bin/bash
# tools/seedall.sh <ID> <n> [extra check ids...] : confirm seed /tmp/seed-<ID>/SEED/<n> and run the checks against it
ID=$1; N=$2; shift 2
name=$(echo "$ID" | tr A-Z a-z)-$N
/verif/tools/seedconfirm.sh $name /tmp/seed-$ID/SEED/$N
/verif/tools/seedtest.sh $name /tmp/seed-$ID/SEED/$N/patch.diff $ID "$@"
