#!/bin/bash
# tools/seedmatrix.sh [parallel] : runs the check of its own property against every stored seed
# (scratch worktree of /repo HEAD + patch), writes /verif/seeded/RESULTS.txt
PAR=${1:-2}
OUT=/var/tmp/seedmatrix; rm -rf $OUT; mkdir -p $OUT
ls -d /verif/seeded/c*-* | xargs -n1 basename | xargs -P $PAR -I{} bash -c 'id=$(echo {} | cut -d- -f1 | tr a-z A-Z); /verif/tools/seedtest.sh {} /verif/seeded/{}/patch.diff $id > '$OUT'/{}.txt 2>&1'
{ echo "# seed  check  result   (HEAD $(git -C /repo rev-parse --short HEAD), $(date -u +%F))"; cat $OUT/*.txt | cut -c1-260; } > /verif/seeded/RESULTS.txt
cat /verif/seeded/RESULTS.txt
