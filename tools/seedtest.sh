#!/bin/bash
# tools/seedtest.sh <name> <patch.diff> <check-id>...   – runs the named checks (quick) against a
# scratch worktree of /repo HEAD with the patch applied; evidence and replay bundles of these runs
# go to /var/tmp/seedtest/<name>/ (never into /verif/evidence). Prints one line per check.
set -u
NAME="$1"; PATCH="$2"; shift 2
WT=/tmp/st-$NAME
OUT=/var/tmp/seedtest/$NAME; rm -rf "$OUT"; mkdir -p "$OUT"
git -C /repo worktree remove --force "$WT" >/dev/null 2>&1
git -C /repo worktree add --detach "$WT" HEAD >/dev/null 2>&1 || { echo "worktree failed"; exit 2; }
if ! git -C "$WT" apply "$PATCH" 2>"$OUT/apply.err"; then echo "PATCH-DOES-NOT-APPLY $(head -3 $OUT/apply.err)"; git -C /repo worktree remove --force "$WT"; exit 2; fi
export GOFLAGS=-mod=mod GOPROXY=off GOSUMDB=off GOTOOLCHAIN=local
(cd "$WT" && go build ./... ) >"$OUT/build.log" 2>&1 || { echo "BUILD-FAILS"; git -C /repo worktree remove --force "$WT"; exit 2; }
if [ -n "${SEED_BASELINE:-}" ]; then VERIF_REPO="$WT" /verif/baseline_off.sh > "$OUT/baseline.log" 2>&1; echo "baseline: $(tail -1 $OUT/baseline.log | head -c 200) rc=$?"; fi
for ID in "$@"; do
  VERIF_REPO="$WT" VERIF_EVIDENCE_DIR="$OUT" VERIF_REPLAY_DIR="$OUT/replay" /verif/check.sh "$ID" quick > "$OUT/$ID.log" 2>&1
  rc=$?
  echo "$NAME $ID rc=$rc $(grep -c '^VIOLATION' $OUT/$ID.log) violation line(s); $(grep -m1 'what:' $OUT/$ID.log | cut -c1-220)"
done
git -C /repo worktree remove --force "$WT" >/dev/null 2>&1
