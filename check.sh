#!/bin/bash
# /verif/check.sh <property-id> quick|thorough
# Rebuilds the driver (which links /repo's current working tree with the verif tag) into a
# scratch directory, runs the check, removes the scratch directory.
# exit 0 = held on everything observed; 1 = VIOLATION printed; 2 = machinery failure.
set -u
ID="${1:?property id}"; TIER="${2:-quick}"
cd "$(dirname "$0")"
export GOFLAGS=-mod=mod GOPROXY=off GOSUMDB=off GOTOOLCHAIN=local GOPHERJS_SKIP_VERSION_CHECK=1
export VERIF_TIER="$TIER"
export VERIF_SCRATCH="${VERIF_SCRATCH:-/var/tmp/verif.$ID.$$}"
mkdir -p "$VERIF_SCRATCH/bin"
cleanup() { if [ -z "${VERIF_KEEP:-}" ]; then chmod -R u+rwx "$VERIF_SCRATCH" 2>/dev/null; rm -rf "$VERIF_SCRATCH"; fi; }
trap cleanup EXIT
MODFLAG=""
if [ -n "${VERIF_REPO:-}" ] && [ "$VERIF_REPO" != /repo ]; then
  # validation runs against a scratch worktree of the repository (mutants): same driver sources,
  # replace directive redirected through an alternate go.mod
  sed "s|=> /repo|=> $VERIF_REPO|" go.mod > "$VERIF_SCRATCH/alt.mod"; cp go.sum "$VERIF_SCRATCH/alt.sum"
  MODFLAG="-modfile=$VERIF_SCRATCH/alt.mod"
  export VERIF_REPO VERIF_MODFLAG="$MODFLAG"
fi
if ! go build $MODFLAG -tags "verif vp_${ID,,}" -o "$VERIF_SCRATCH/bin/vp" ./cmd/vp 2>"$VERIF_SCRATCH/build.err"; then
  echo "MACHINERY-FAILURE property=$ID driver does not build against /repo:"; cat "$VERIF_SCRATCH/build.err"
  exit 2
fi
LIMIT=1800; [ "$TIER" = thorough ] && LIMIT=14400
timeout -s QUIT -k 30 "$LIMIT" "$VERIF_SCRATCH/bin/vp" "$ID" "$TIER"
rc=$?
if [ $rc -ge 124 ]; then echo "MACHINERY-FAILURE property=$ID watchdog/abnormal exit rc=$rc (inconclusive, not a violation)"; exit 2; fi
exit $rc
